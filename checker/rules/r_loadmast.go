package rules

import (
	"fmt"
	"go/constant"
	"go/token"
	"go/types"
	"sort"
	"strings"

	"golang.org/x/tools/go/ssa"

	"mastcheck/ir"
)

func init() {
	Register(&Rule{
		ID:    "MUSTCHECK",
		Props: []string{"C19"},
		Min:   1,
		Doc: "every return of (*Root).LoadMast with a nil error is dominated by a call of the root validator on the very Mast being returned, " +
			"a non-nil error of that call can only lead to returns with a non-nil error, and the height and branch factor the validator reads " +
			"were filled from the Root record before the call.",
		Run: runMUSTCHECK,
	})
	Register(&Rule{
		ID:    "ROOTCLAUSES",
		Props: []string{"C19"},
		Min:   6,
		Doc: "the root validator examines the node obtained by loading m.root, propagates the load error, and contains for each clause an " +
			"unavoidable branch over the right value classes (by dataflow origin) whose rejecting edge reaches only returns of a non-nil error: " +
			"len(Key)≠len(Value); len(Link)≠len(Key)+1; keyOrder(previous key, current key)≥0 for every adjacent pair (equality rejected); " +
			"keyLayer(key, m.branchFactor)<m.height for every key.",
		Run: runROOTCLAUSES,
	})
	Register(&Rule{
		ID:    "ROOTEXACT",
		Props: []string{"C05", "C19"},
		Min:   4,
		Doc: "the root check rejects nothing but what C19 lists (so every root MakeRoot produced loads again): each branch of the validator (and of the " +
			"node check on the decoding path) whose taken edge reaches only error returns is either the test of an error a callee returned, or a " +
			"comparison over a clause's value classes that holds for no conforming value — exactly len(Key)≠len(Value), len(Link)≠len(Key)+1 " +
			"(or len(Link)≠len(Value)+1), keyOrder(previous, next)≥0, keyLayer(key, m.branchFactor)<m.height after operator normalisation; " +
			"a rejecting branch over values the rule cannot classify is undecided. In LoadMast itself and its helpers that do not read nodes, a rejecting " +
			"branch must test a callee's error, the recorded node format, or configuration values (with Root.Link); one that depends on the recorded " +
			"size, height, branch factor or derived thresholds is a violation.",
		Run: runROOTEXACT,
	})
	Register(&Rule{
		ID:    "NOPANICLOAD",
		Props: []string{"C19"},
		Min:   2,
		Doc: "no explicit panic whose guard depends on the contents of a loaded node (entry, value or link counts, comparator or layer results, " +
			"their errors, results of functions that read nodes) is reachable from (*Root).LoadMast; panics behind constant-false conditions and " +
			"behind Mast.debug (verified never set) are excluded, panics whose guard depends only on the configuration are discharged.",
		Run: runNOPANICLOAD,
	})
	Assume("C19", "ROOTCLAUSES accepts keyOrder(current, previous) with the mirrored operator only under the assumption that the comparator is antisymmetric",
		"sufficiency of the four clauses is not decided")
}

// ---- locating the validator ---------------------------------------------------

type lmValidator struct {
	fn     *ssa.Function
	sites  []*ssa.Call // call sites in LoadMast
	byName bool
}

// lmLoadLike: a function returning (*mastNode, error) that may read a node.
func lmLoadLike(c *Ctx, g *ssa.Function) bool {
	if g == nil || !c.Facts.MayLoad[g] {
		return false
	}
	r := g.Signature.Results()
	return r.Len() == 2 && isNodePtr(r.At(0).Type()) && ir.IsErrorType(r.At(1).Type())
}

// lmValidators finds the root validator(s) by role: functions LoadMast calls
// directly, on a *Mast, returning an error, that may read a node. Falls back
// on the name (*Mast).checkRoot when the role finds nothing (e.g. the call
// was removed).
func lmValidators(c *Ctx, lm *ssa.Function) []lmValidator {
	by := map[*ssa.Function]*lmValidator{}
	var order []*ssa.Function
	for _, ci := range CallsOf(lm) {
		call, ok := ci.(*ssa.Call)
		if !ok {
			continue
		}
		g := ir.Callee(call.Call)
		if g == nil || !isOwn(c.P, g) || g.Blocks == nil || lmLoadLike(c, g) {
			continue
		}
		if !c.Facts.MayLoad[g] || ir.ErrorResultIndex(g.Signature) < 0 || lpMastParam(g) < 0 {
			continue
		}
		if by[g] == nil {
			by[g] = &lmValidator{fn: g}
			order = append(order, g)
		}
		by[g].sites = append(by[g].sites, call)
	}
	var out []lmValidator
	for _, g := range order {
		out = append(out, *by[g])
	}
	if len(out) == 0 {
		if g := c.P.MastFunc("(*Mast).checkRoot"); g != nil {
			out = append(out, lmValidator{fn: g, byName: true})
		}
	}
	return out
}

// ---- MUSTCHECK ------------------------------------------------------------------

func runMUSTCHECK(c *Ctx) {
	P := c.P
	lm := c.MustFunc("(*Root).LoadMast")
	if lm == nil {
		return
	}
	ei := ir.ErrorResultIndex(lm.Signature)
	mi := -1
	for i := 0; i < lm.Signature.Results().Len(); i++ {
		if lpIsMastPtr(lm.Signature.Results().At(i).Type()) {
			mi = i
		}
	}
	if ei < 0 || mi < 0 {
		c.AnchorMissing("results (*Mast, error) of LoadMast")
		return
	}
	vals := lmValidators(c, lm)
	if len(vals) == 0 {
		if !c.Facts.MayLoad[lm] {
			c.Violation(lm, P.Pos(lm.Pos()), "no root validator", "LoadMast neither calls a root validator nor reads the top node: a missing or malformed top node cannot be rejected")
		} else {
			c.AnchorMissing("root validator called from LoadMast (a function on *Mast returning error that loads the root)")
		}
		return
	}
	var succ []*ssa.Return
	for _, r := range ir.Returns(lm) {
		if lpErrClass(r.Results[ei], r.Block(), 0) != lpErrNonNil {
			succ = append(succ, r)
		}
	}
	if len(succ) == 0 {
		c.AnchorMissing("a return of LoadMast with nil error")
		return
	}
	for _, v := range vals {
		vname := ir.FuncName(v.fn)
		for _, r := range succ {
			pos := P.InstrPos(r)
			what := "success return of LoadMast preceded by " + vname
			// the returned Mast
			var mast *ssa.Alloc
			if a, ok := ir.ResolveCell(ir.Strip(r.Results[mi])).(*ssa.Alloc); ok {
				mast = a
			}
			// the error operand may be the validator's own error (return &m, m.checkRoot(ctx))
			var dom []*ssa.Call
			for _, s := range v.sites {
				if ir.Before(s, r) {
					dom = append(dom, s)
				}
			}
			if len(dom) == 0 {
				c.Violation(lm, pos, "success return without "+vname,
					fmt.Sprintf("LoadMast returns a tree with nil error at %s on a path that does not call the root validator %s: a root that does not match the configuration is accepted", pos, vname))
				continue
			}
			okSite := false
			for _, s := range dom {
				// (1) same Mast
				mp := lpMastParam(v.fn)
				recv, _ := ir.ResolveCell(ir.Strip(s.Call.Args[mp])).(*ssa.Alloc)
				if mast == nil || recv == nil {
					c.Undecided(lm, P.InstrPos(s), vname+" receiver", "cannot identify the Mast that is validated or the Mast that is returned as a local allocation")
					continue
				}
				if recv != mast {
					if lmIsCopyOf(recv, mast) {
						c.Undecided(lm, P.InstrPos(s), vname+" on a copy", "the validator runs on a copy of the returned Mast; equivalence of the copy is not decided")
					} else {
						c.Violation(lm, P.InstrPos(s), vname+" on a different Mast",
							fmt.Sprintf("the root validator is called on %s but LoadMast returns %s: the returned tree is not the one that was validated", lmAllocName(recv), lmAllocName(mast)))
					}
					continue
				}
				// (2) error propagated
				e, _ := lpErrorValue(s)
				if e == nil || !lpUsed(e) {
					c.Violation(lm, P.InstrPos(s), "error of "+vname+" dropped",
						"the error result of the root validator is ignored: LoadMast returns the tree although validation failed")
					continue
				}
				k, why := lpPropagates(P, s)
				switch k {
				case lpErrNil:
					c.Violation(lm, P.InstrPos(s), "error of "+vname+" not propagated",
						"a non-nil error of the root validator does not prevent a success return: "+why)
					continue
				case lpErrMaybe:
					c.Undecided(lm, P.InstrPos(s), "error of "+vname, "cannot decide that a validator error leads only to error returns: "+why)
					continue
				}
				okSite = true
			}
			if okSite {
				c.OK(pos, what, "dominated by the call on the returned Mast; a non-nil validator error reaches only error returns", false)
			}
		}
		// (3) the fields the validator reads were filled from the Root record
		if len(v.sites) == 0 {
			continue
		}
		site := v.sites[0]
		recv, _ := ir.ResolveCell(ir.Strip(succ[0].Results[mi])).(*ssa.Alloc)
		if recv == nil || len(lm.Params) == 0 {
			continue
		}
		for _, fr := range [][2]string{{"height", "Height"}, {"branchFactor", "BranchFactor"}} {
			lmCheckFilled(c, lm, site, recv, fr[0], fr[1])
		}
	}
}

func lmAllocName(a *ssa.Alloc) string {
	if a.Comment != "" {
		return "local " + a.Comment
	}
	return "a local Mast"
}

// lmIsCopyOf: b's only initialisation is `*b = *a`.
func lmIsCopyOf(b, a *ssa.Alloc) bool {
	if b.Referrers() == nil {
		return false
	}
	n := 0
	for _, r := range *b.Referrers() {
		if st, ok := r.(*ssa.Store); ok && st.Addr == ssa.Value(b) {
			n++
			ld, ok := st.Val.(*ssa.UnOp)
			if !ok || ld.Op != token.MUL || ld.X != ssa.Value(a) {
				return false
			}
		}
	}
	return n == 1
}

// lmFieldStores collects the stores that determine field `field` of the Mast
// in allocation a: direct field stores, and field stores into a composite
// literal that is copied wholesale into a.
func lmFieldStores(a *ssa.Alloc, field string, depth int) (stores []*ssa.Store, opaque bool) {
	if a.Referrers() == nil || depth > 3 {
		return nil, depth > 3
	}
	for _, r := range *a.Referrers() {
		switch x := r.(type) {
		case *ssa.FieldAddr:
			if ir.FieldName(x.X.Type(), x.Field) != field || x.Referrers() == nil {
				continue
			}
			for _, rr := range *x.Referrers() {
				switch y := rr.(type) {
				case *ssa.Store:
					if y.Addr == ssa.Value(x) {
						stores = append(stores, y)
					} else {
						opaque = true
					}
				case *ssa.UnOp, *ssa.DebugRef:
				default:
					opaque = true
				}
			}
		case *ssa.Store:
			if x.Addr != ssa.Value(a) {
				continue
			}
			ld, ok := x.Val.(*ssa.UnOp)
			if ok && ld.Op == token.MUL {
				if b, ok := ld.X.(*ssa.Alloc); ok {
					s2, o2 := lmFieldStores(b, field, depth+1)
					stores = append(stores, s2...)
					opaque = opaque || o2
					continue
				}
			}
			opaque = true
		}
	}
	return
}

func lmCheckFilled(c *Ctx, lm *ssa.Function, site *ssa.Call, recv *ssa.Alloc, field, rootField string) {
	P := c.P
	what := fmt.Sprintf("Mast.%s filled from Root.%s before validation", field, rootField)
	stores, opaque := lmFieldStores(recv, field, 0)
	construct := "Mast." + field + " from Root." + rootField
	if opaque {
		c.Undecided(lm, P.InstrPos(site), construct, "the value of Mast."+field+" at the validator call cannot be traced (initialised from an opaque value)")
		return
	}
	if len(stores) == 0 {
		c.Violation(lm, P.InstrPos(site), construct, fmt.Sprintf("LoadMast never sets Mast.%s, so the validator compares against the zero value instead of the recorded Root.%s", field, rootField))
		return
	}
	for _, st := range stores {
		pos := P.InstrPos(st)
		if !ir.Before(st, site) {
			if ir.InstrReaches(site, st) {
				c.Violation(lm, pos, construct, fmt.Sprintf("Mast.%s is assigned after the root validator ran: validation used a different value than the tree that is returned", field))
			} else {
				c.Undecided(lm, pos, construct, "a store to Mast."+field+" does not dominate the validator call")
			}
			return
		}
		v := st.Val
		for {
			if cv, ok := v.(*ssa.Convert); ok {
				v = cv.X
				continue
			}
			break
		}
		if _, ok := v.(*ssa.Const); ok {
			c.Violation(lm, pos, construct, fmt.Sprintf("Mast.%s is set to the constant %s instead of Root.%s: the validator does not check against the recorded value", field, v.Name(), rootField))
			return
		}
		ld, ok := v.(*ssa.UnOp)
		if ok && ld.Op == token.MUL {
			if fa, ok := ld.X.(*ssa.FieldAddr); ok && fa.X == ssa.Value(lm.Params[0]) && ir.FieldName(fa.X.Type(), fa.Field) == rootField {
				continue
			}
		}
		c.Undecided(lm, pos, construct, fmt.Sprintf("Mast.%s is set from %s, not directly from Root.%s", field, lpDesc(st.Val, 0), rootField))
		return
	}
	c.OK(P.InstrPos(site), what, fmt.Sprintf("%d store(s), all of Root.%s, all dominating the validator call", len(stores), rootField), false)
}

// ---- ROOTCLAUSES: value classes ------------------------------------------------

type lmKind int

const (
	lmUnknown lmKind = iota
	lmMast
	lmRootLink
	lmOrderFn
	lmLayerFn
	lmBF
	lmHeight
	lmNode
	lmNodeStruct
	lmSlice
	lmLen
	lmIdx
	lmElem
	lmCmp
	lmLayer
	lmConst
	lmNil
)

type lmVal struct {
	k        lmKind
	field    string  // lmSlice, lmLen: Key Value Link
	loop     *lmLoop // lmIdx, lmElem
	off      int64   // lmElem: element index = loop counter + off (or the constant index)
	prev     bool    // lmElem reached through a loop-carried variable
	constIdx bool    // lmElem with a constant index
	add      int64   // integer offset of lmLen, lmIdx, lmConst, lmCmp
	a, b     *lmVal  // lmCmp, lmLayer arguments
	call     *ssa.Call
}

var lmUnk = &lmVal{k: lmUnknown}

func (v *lmVal) intKind() bool {
	return v.k == lmLen || v.k == lmIdx || v.k == lmConst || v.k == lmCmp
}

func lmAdd(n int64) string {
	if n > 0 {
		return fmt.Sprintf("+%d", n)
	}
	if n < 0 {
		return fmt.Sprintf("%d", n)
	}
	return ""
}

func (v *lmVal) String() string {
	if v == nil {
		return "?"
	}
	switch v.k {
	case lmMast:
		return "m"
	case lmRootLink:
		return "m.root"
	case lmBF:
		return "m.branchFactor"
	case lmHeight:
		return "m.height"
	case lmNode:
		return "rootnode"
	case lmSlice:
		return v.field
	case lmLen:
		return "len(" + v.field + ")" + lmAdd(v.add)
	case lmIdx:
		return "i" + lmAdd(v.add)
	case lmElem:
		if v.constIdx {
			return fmt.Sprintf("Key[%d]", v.off)
		}
		if v.prev {
			return "previous key"
		}
		return "Key[i" + lmAdd(v.off) + "]"
	case lmCmp:
		return "keyOrder(" + v.a.String() + ", " + v.b.String() + ")" + lmAdd(v.add)
	case lmLayer:
		return "keyLayer(" + v.a.String() + ", " + v.b.String() + ")"
	case lmConst:
		return fmt.Sprintf("%d", v.add)
	case lmNil:
		return "nil"
	}
	return "?"
}

// lmLoop is a counting loop `for p := c0; p+k < len(field)+h; p++`.
type lmLoop struct {
	fr     *lmFrame
	phi    *ssa.Phi
	hdr    *ssa.BasicBlock
	stay   *ssa.BasicBlock
	blocks map[*ssa.BasicBlock]bool
	c0     int64
	H      int64 // p ranges over [c0, len+H)
	field  string
}

type lmFrame struct {
	fn     *ssa.Function
	env    map[*ssa.Parameter]*lmVal
	parent *lmFrame
	site   *ssa.Call
	depth  int
	// loader frames: the local node being filled and returned; only returns
	// that hand out that node count as success returns of the frame.
	// (or the node a decoder helper built and returned: `node, err := m.decodeNode(b, l)`)
	seed ssa.Value
}

// counts: does return r count as a success return of frame f?
func (f *lmFrame) counts(r *ssa.Return) bool {
	if f.seed == nil {
		return true
	}
	return len(r.Results) > 0 && ir.ResolveCell(ir.Strip(r.Results[0])) == f.seed
}

type lmKey struct {
	fr *lmFrame
	v  ssa.Value
}

type lmAtom struct {
	op token.Token
	d  int64
}

func (a lmAtom) holds(x int64) bool {
	switch a.op {
	case token.EQL:
		return x == a.d
	case token.NEQ:
		return x != a.d
	case token.LSS:
		return x < a.d
	case token.LEQ:
		return x <= a.d
	case token.GTR:
		return x > a.d
	case token.GEQ:
		return x >= a.d
	}
	return false
}

const (
	lmGood = iota
	lmBad
	lmUnd
)

type lmCand struct {
	clause int
	fr     *lmFrame
	iff    *ssa.If
	edge   int // successor index of the rejecting edge
	atom   lmAtom
	loop   *lmLoop
	a      int64
	prev   bool
	desc   string
	note   string
	status int
	why    string
	// rej: does the edge reject (steps 1 and 2 of gate: it reaches only error
	// returns and every caller passes the error on), whether or not the
	// branch can be bypassed — what matters for over-rejection.
	rej int
}

type lmCallNote struct {
	fr   *lmFrame
	call *ssa.Call
	a, b *lmVal
}

type lmAn struct {
	c          *Ctx
	V          *ssa.Function
	memo       map[lmKey]*lmVal
	loops      map[lmKey]*lmLoop
	cands      []*lmCand
	near       map[int][]string // clause -> near-miss descriptions (bad shape)
	nearUnd    map[int][]string // clause -> comparisons with an unclassifiable operand
	nearPos    map[int]string
	orderCalls []lmCallNote
	layerCalls []lmCallNote
	nodeCalls  []*ssa.Call
	opaque     []string // helpers without error result that receive classified values
	frames     int
	// preAcc: count differences a node can still have when the validator sees
	// it, given what the load path already rejected (axis -> accepted values).
	preAcc map[int][]int64
	frs    []*lmFrame // every frame walked
	// loose: comparisons inside an expanded predicate that match no clause
	loose []lmLoose
}

type lmLoose struct {
	fr   *lmFrame
	iff  *ssa.If
	edge int
	t    lmTriple
}

func (an *lmAn) cl(v ssa.Value, fr *lmFrame) *lmVal {
	if v == nil {
		return lmUnk
	}
	key := lmKey{fr, v}
	if r, ok := an.memo[key]; ok {
		if r == nil {
			return lmUnk
		}
		return r
	}
	an.memo[key] = nil
	r := an.cl0(v, fr)
	if r == nil {
		r = lmUnk
	}
	an.memo[key] = r
	return r
}

func lmIsInt(t types.Type) bool {
	b, ok := t.Underlying().(*types.Basic)
	return ok && b.Info()&types.IsInteger != 0
}

func (an *lmAn) cl0(v ssa.Value, fr *lmFrame) *lmVal {
	v = ir.ResolveCell(v)
	switch x := v.(type) {
	case *ssa.Parameter:
		if e := fr.env[x]; e != nil {
			return e
		}
	case *ssa.Alloc:
		if fr.seed != nil && ssa.Value(x) == fr.seed {
			return &lmVal{k: lmNode}
		}
	case *ssa.Const:
		if x.Value == nil {
			return &lmVal{k: lmNil}
		}
		if x.Value.Kind() == constant.Int {
			if n, ok := constant.Int64Val(x.Value); ok {
				return &lmVal{k: lmConst, add: n}
			}
		}
	case *ssa.Convert:
		if lmIsInt(x.Type()) && lmIsInt(x.X.Type()) {
			return an.cl(x.X, fr)
		}
	case *ssa.ChangeType:
		return an.cl(x.X, fr)
	case *ssa.ChangeInterface:
		return an.cl(x.X, fr)
	case *ssa.BinOp:
		if x.Op != token.ADD && x.Op != token.SUB {
			return lmUnk
		}
		L, R := an.cl(x.X, fr), an.cl(x.Y, fr)
		if R.k == lmConst && L.intKind() {
			n := *L
			if x.Op == token.ADD {
				n.add += R.add
			} else {
				n.add -= R.add
			}
			return &n
		}
		if x.Op == token.ADD && L.k == lmConst && R.intKind() {
			n := *R
			n.add += L.add
			return &n
		}
	case *ssa.FieldAddr:
		if an.cl(x.X, fr).k == lmNode && ir.FieldName(x.X.Type(), x.Field) == "Node" {
			return &lmVal{k: lmNodeStruct}
		}
	case *ssa.UnOp:
		if x.Op == token.MUL {
			return an.clLoad(x.X, fr)
		}
	case *ssa.Call:
		if b, ok := x.Call.Value.(*ssa.Builtin); ok && b.Name() == "len" && len(x.Call.Args) == 1 {
			if s := an.cl(x.Call.Args[0], fr); s.k == lmSlice {
				return &lmVal{k: lmLen, field: s.field}
			}
		}
	case *ssa.Extract:
		if fr.seed != nil && ssa.Value(x) == fr.seed {
			return &lmVal{k: lmNode}
		}
		call, ok := x.Tuple.(*ssa.Call)
		if !ok {
			return lmUnk
		}
		if g := ir.Callee(call.Call); g != nil {
			if x.Index == 0 && an.isRootLoad(call, fr, 0) {
				return &lmVal{k: lmNode, call: call}
			}
			return lmUnk
		}
		if call.Call.IsInvoke() || x.Index != 0 {
			return lmUnk
		}
		switch an.cl(call.Call.Value, fr).k {
		case lmOrderFn:
			if len(call.Call.Args) == 2 {
				return &lmVal{k: lmCmp, a: an.cl(call.Call.Args[0], fr), b: an.cl(call.Call.Args[1], fr), call: call}
			}
		case lmLayerFn:
			if len(call.Call.Args) == 2 {
				return &lmVal{k: lmLayer, a: an.cl(call.Call.Args[0], fr), b: an.cl(call.Call.Args[1], fr), call: call}
			}
		}
	case *ssa.Phi:
		return an.clPhi(x, fr)
	}
	return lmUnk
}

func (an *lmAn) clLoad(addr ssa.Value, fr *lmFrame) *lmVal {
	switch x := addr.(type) {
	case *ssa.FieldAddr:
		name := ir.FieldName(x.X.Type(), x.Field)
		switch an.cl(x.X, fr).k {
		case lmMast:
			switch name {
			case "root":
				return &lmVal{k: lmRootLink}
			case "keyOrder":
				return &lmVal{k: lmOrderFn}
			case "keyLayer":
				return &lmVal{k: lmLayerFn}
			case "branchFactor":
				return &lmVal{k: lmBF}
			case "height":
				return &lmVal{k: lmHeight}
			}
		case lmNodeStruct:
			switch name {
			case "Key", "Value", "Link":
				return &lmVal{k: lmSlice, field: name}
			}
		}
	case *ssa.IndexAddr:
		s := an.cl(x.X, fr)
		if s.k != lmSlice || s.field != "Key" {
			return lmUnk
		}
		i := an.cl(x.Index, fr)
		switch i.k {
		case lmIdx:
			return &lmVal{k: lmElem, loop: i.loop, off: i.add}
		case lmConst:
			return &lmVal{k: lmElem, constIdx: true, off: i.add}
		}
	}
	return lmUnk
}

func (an *lmAn) clPhi(phi *ssa.Phi, fr *lmFrame) *lmVal {
	if L := an.loopOf(phi, fr); L != nil {
		return &lmVal{k: lmIdx, loop: L}
	}
	hdr := phi.Block()
	var L *lmLoop
	for _, ins := range hdr.Instrs {
		sib, ok := ins.(*ssa.Phi)
		if !ok {
			break
		}
		if sib != phi {
			if l := an.loopOf(sib, fr); l != nil {
				L = l
				break
			}
		}
	}
	if L == nil {
		return lmUnk
	}
	have := false
	var j int64
	for i, e := range phi.Edges {
		if !L.blocks[hdr.Preds[i]] {
			continue
		}
		ev := an.cl(e, fr)
		if ev.k != lmElem || ev.loop != L || ev.constIdx || ev.prev {
			return lmUnk
		}
		if have && ev.off != j {
			return lmUnk
		}
		have, j = true, ev.off
	}
	if !have {
		return lmUnk
	}
	return &lmVal{k: lmElem, loop: L, off: j - 1, prev: true}
}

// lmPhiPlus: v is phi (+k).
func lmPhiPlus(v ssa.Value, phi *ssa.Phi) (int64, bool) {
	if v == ssa.Value(phi) {
		return 0, true
	}
	b, ok := v.(*ssa.BinOp)
	if !ok || (b.Op != token.ADD && b.Op != token.SUB) {
		return 0, false
	}
	cst := func(x ssa.Value) (int64, bool) {
		c, ok := x.(*ssa.Const)
		if !ok || c.Value == nil || c.Value.Kind() != constant.Int {
			return 0, false
		}
		return constant.Int64Val(c.Value)
	}
	if b.X == ssa.Value(phi) {
		if n, ok := cst(b.Y); ok {
			if b.Op == token.SUB {
				return -n, true
			}
			return n, true
		}
	}
	if b.Op == token.ADD && b.Y == ssa.Value(phi) {
		if n, ok := cst(b.X); ok {
			return n, true
		}
	}
	return 0, false
}

// loopOf recognises phi as the counter of a counting loop over a node slice.
func (an *lmAn) loopOf(phi *ssa.Phi, fr *lmFrame) *lmLoop {
	key := lmKey{fr, phi}
	if L, ok := an.loops[key]; ok {
		return L
	}
	an.loops[key] = nil
	if !lmIsInt(phi.Type()) {
		return nil
	}
	hdr := phi.Block()
	var c0 int64
	haveInit, haveLatch := false, false
	for i, e := range phi.Edges {
		pred := hdr.Preds[i]
		if hdr.Dominates(pred) {
			n, ok := lmPhiPlus(e, phi)
			if !ok || n != 1 {
				return nil
			}
			haveLatch = true
			continue
		}
		c, ok := e.(*ssa.Const)
		if !ok || c.Value == nil || c.Value.Kind() != constant.Int {
			return nil
		}
		n, _ := constant.Int64Val(c.Value)
		if haveInit && n != c0 {
			return nil
		}
		haveInit, c0 = true, n
	}
	if !haveInit || !haveLatch || len(hdr.Instrs) == 0 || len(hdr.Succs) != 2 {
		return nil
	}
	iff, ok := hdr.Instrs[len(hdr.Instrs)-1].(*ssa.If)
	if !ok {
		return nil
	}
	blocks := map[*ssa.BasicBlock]bool{}
	for _, b := range hdr.Parent().Blocks {
		if hdr.Dominates(b) && ir.CanReach(b, hdr) {
			blocks[b] = true
		}
	}
	stayIdx := -1
	for i, s := range hdr.Succs {
		if blocks[s] && s != hdr {
			if stayIdx >= 0 {
				return nil
			}
			stayIdx = i
		}
	}
	if stayIdx < 0 {
		return nil
	}
	cond := iff.Cond
	neg := stayIdx == 1
	for {
		u, ok := cond.(*ssa.UnOp)
		if !ok || u.Op != token.NOT {
			break
		}
		neg = !neg
		cond = u.X
	}
	bin, ok := cond.(*ssa.BinOp)
	if !ok {
		return nil
	}
	op := bin.Op
	if neg {
		op = lpNegOp(op)
	}
	var k int64
	var bound *lmVal
	if n, ok := lmPhiPlus(bin.X, phi); ok {
		k, bound = n, an.cl(bin.Y, fr)
	} else if n, ok := lmPhiPlus(bin.Y, phi); ok {
		k, bound = n, an.cl(bin.X, fr)
		op = lpFlipOp(op)
	} else {
		return nil
	}
	if bound.k != lmLen {
		return nil
	}
	// stay while p+k op len+bound.add
	var h int64
	switch op {
	case token.LSS:
		h = bound.add
	case token.LEQ:
		h = bound.add + 1
	default:
		return nil
	}
	L := &lmLoop{fr: fr, phi: phi, hdr: hdr, stay: hdr.Succs[stayIdx], blocks: blocks, c0: c0, H: h - k, field: bound.field}
	an.loops[key] = L
	return L
}

// rel decodes a comparison.
func (an *lmAn) rel(cond ssa.Value, fr *lmFrame) (A, B *lmVal, op token.Token, ok bool) {
	neg := false
	for {
		u, isU := cond.(*ssa.UnOp)
		if !isU || u.Op != token.NOT {
			break
		}
		neg = !neg
		cond = u.X
	}
	bin, isB := cond.(*ssa.BinOp)
	if !isB {
		return nil, nil, 0, false
	}
	op = bin.Op
	if lpNegOp(op) == token.ILLEGAL {
		return nil, nil, 0, false
	}
	if neg {
		op = lpNegOp(op)
	}
	return an.cl(bin.X, fr), an.cl(bin.Y, fr), op, true
}

var lmClauseName = map[int]string{
	1: "len(Key)≠len(Value)",
	2: "len(Link)≠len(Key)+1",
	3: "keyOrder(prev,cur)≥0",
	4: "keyLayer(key,branchFactor)<height",
}

func lmRequired(clause int, x int64) bool {
	switch clause {
	case 1:
		return x != 0
	case 2, 5:
		return x != 1
	case 3:
		return x >= 0
	case 4:
		return x < 0
	}
	return false
}

type lmMatch struct {
	clause int
	atom   lmAtom
	loop   *lmLoop
	a      int64
	prev   bool
	note   string
}

// match1 matches relation X op Y (offsets included in the classes) against the
// clause axes in this orientation.
func (an *lmAn) match1(X, Y *lmVal, op token.Token) (*lmMatch, int, string) {
	switch {
	case X.k == lmLen && Y.k == lmLen:
		d := Y.add - X.add
		switch {
		case X.field == "Key" && Y.field == "Value":
			return &lmMatch{clause: 1, atom: lmAtom{op, d}}, 0, ""
		case X.field == "Link" && Y.field == "Key":
			return &lmMatch{clause: 2, atom: lmAtom{op, d}}, 0, ""
		case X.field == "Link" && Y.field == "Value":
			return &lmMatch{clause: 5, atom: lmAtom{op, d}}, 0, ""
		}
	case X.k == lmCmp && Y.k == lmConst:
		a, b := X.a, X.b
		d := Y.add - X.add
		if a.k == lmElem && b.k == lmElem && !a.constIdx && !b.constIdx && a.loop == b.loop && a.loop != nil {
			if b.off == a.off+1 && !b.prev {
				return &lmMatch{clause: 3, atom: lmAtom{op, d}, loop: a.loop, a: a.off, prev: a.prev}, 0, ""
			}
			if a.off == b.off+1 && !a.prev {
				return &lmMatch{clause: 3, atom: lmAtom{lpFlipOp(op), -d}, loop: a.loop, a: b.off, prev: b.prev,
					note: "comparator arguments are (current, previous): accepted with the mirrored operator (antisymmetric comparator assumed)"}, 0, ""
			}
		}
		return nil, 3, fmt.Sprintf("bad:keyOrder is called with (%s, %s), not with (previous key, current key) of one loop over the keys", a, b)
	case X.k == lmLayer && Y.k == lmHeight:
		key, bf := X.a, X.b
		if bf.k != lmBF {
			return nil, 4, fmt.Sprintf("bad:keyLayer is called with branch factor %s, not m.branchFactor", bf)
		}
		if key.k == lmElem && !key.constIdx && key.loop != nil {
			return &lmMatch{clause: 4, atom: lmAtom{op, 0}, loop: key.loop, a: key.off, prev: key.prev}, 0, ""
		}
		return nil, 4, fmt.Sprintf("bad:keyLayer is applied to %s, not to every key of a loop over the keys", key)
	case X.k == lmLayer && Y.k != lmHeight:
		if Y.k == lmUnknown {
			return nil, 4, "und:keyLayer result compared with a value that cannot be classified"
		}
		return nil, 4, fmt.Sprintf("bad:keyLayer result is compared with %s, not with m.height", Y)
	case X.k == lmCmp && Y.k != lmConst:
		return nil, 3, "und:keyOrder result compared with a value that cannot be classified"
	case X.k == lmLen && Y.k == lmUnknown:
		cl := 1
		if X.field == "Link" {
			cl = 2
		}
		return nil, cl, "und:len(" + X.field + ") compared with a value that cannot be classified"
	}
	return nil, 0, ""
}

func (an *lmAn) match(A, B *lmVal, op token.Token) (*lmMatch, int, string) {
	m, cl, nm := an.match1(A, B, op)
	if m != nil {
		return m, 0, ""
	}
	m2, cl2, nm2 := an.match1(B, A, lpFlipOp(op))
	if m2 != nil {
		return m2, 0, ""
	}
	if nm != "" {
		return nil, cl, nm
	}
	return nil, cl2, nm2
}

func lmOnStack(fr *lmFrame, g *ssa.Function) bool {
	for f := fr; f != nil; f = f.parent {
		if f.fn == g {
			return true
		}
	}
	return false
}

func (an *lmAn) walk(fr *lmFrame) {
	an.frs = append(an.frs, fr)
	an.frames++
	if an.frames > 64 {
		return
	}
	P := an.c.P
	for _, b := range fr.fn.Blocks {
		for _, ins := range b.Instrs {
			switch x := ins.(type) {
			case *ssa.If:
				if len(b.Succs) != 2 || b.Succs[0] == b.Succs[1] {
					continue
				}
				A, B, op, ok := an.rel(x.Cond, fr)
				if !ok {
					// a pure predicate (or a boolean combination): each edge
					// on which the condition is a disjunction of comparisons
					// yields one candidate per comparison
					if e := an.boolExpr(x.Cond, fr, 0); e != nil {
						for edge := 0; edge < 2; edge++ {
							ts, ok := lmDisj(e, edge == 0)
							if !ok {
								continue
							}
							for _, t := range ts {
								m, _, _ := an.match(t.A, t.B, t.op)
								if m == nil {
									an.loose = append(an.loose, lmLoose{fr, x, edge, t})
									continue
								}
								an.cands = append(an.cands, &lmCand{clause: m.clause, fr: fr, iff: x, edge: edge, atom: m.atom, loop: m.loop, a: m.a, prev: m.prev, note: m.note,
									desc: fmt.Sprintf("%s %s %s", t.A, t.op, t.B)})
							}
						}
					}
					continue
				}
				m, ncl, nm := an.match(A, B, op)
				if m == nil {
					if nm != "" {
						desc := fmt.Sprintf("`%s %s %s` at %s", A, op, B, P.InstrPos(x))
						if strings.HasPrefix(nm, "und:") {
							an.nearUnd[ncl] = append(an.nearUnd[ncl], desc+": "+nm[4:])
						} else {
							an.near[ncl] = append(an.near[ncl], desc+": "+nm[4:])
						}
						if an.nearPos[ncl] == "" {
							an.nearPos[ncl] = P.InstrPos(x)
						}
					}
					continue
				}
				for edge := 0; edge < 2; edge++ {
					at := m.atom
					if edge == 1 {
						at.op = lpNegOp(at.op)
					}
					opE := op
					if edge == 1 {
						opE = lpNegOp(op)
					}
					cd := &lmCand{clause: m.clause, fr: fr, iff: x, edge: edge, atom: at, loop: m.loop, a: m.a, prev: m.prev, note: m.note,
						desc: fmt.Sprintf("%s %s %s", A, opE, B)}
					an.cands = append(an.cands, cd)
				}
			case *ssa.Call:
				if g := ir.Callee(x.Call); g != nil {
					if lmLoadLike(an.c, g) {
						if an.isRootLoad(x, fr, 0) {
							an.nodeCalls = append(an.nodeCalls, x)
						}
						continue
					}
					if !isOwn(P, g) || g.Blocks == nil || fr.depth >= 3 || lmOnStack(fr, g) {
						continue
					}
					if an.boolExpr(x, fr, 0) != nil {
						continue // a pure predicate: expanded where its result is branched on
					}
					env := map[*ssa.Parameter]*lmVal{}
					for i, a := range x.Call.Args {
						if i < len(g.Params) {
							if v := an.cl(a, fr); v.k != lmUnknown && v.k != lmConst && v.k != lmNil {
								env[g.Params[i]] = v
							}
						}
					}
					if len(env) > 0 {
						if ir.ErrorResultIndex(g.Signature) < 0 && g.Signature.Results().Len() > 0 {
							var cls []string
							for _, p := range g.Params {
								if e := env[p]; e != nil && e.k != lmMast {
									cls = append(cls, e.String())
								}
							}
							if len(cls) > 0 {
								an.opaque = append(an.opaque, fmt.Sprintf("%s receives %s and reports through a non-error result at %s", ir.FuncName(g), strings.Join(cls, ", "), P.InstrPos(x)))
							}
						}
						an.walk(&lmFrame{fn: g, env: env, parent: fr, site: x, depth: fr.depth + 1})
					}
					continue
				}
				if x.Call.IsInvoke() || len(x.Call.Args) != 2 {
					continue
				}
				switch an.cl(x.Call.Value, fr).k {
				case lmOrderFn:
					an.orderCalls = append(an.orderCalls, lmCallNote{fr, x, an.cl(x.Call.Args[0], fr), an.cl(x.Call.Args[1], fr)})
				case lmLayerFn:
					an.layerCalls = append(an.layerCalls, lmCallNote{fr, x, an.cl(x.Call.Args[0], fr), an.cl(x.Call.Args[1], fr)})
				}
			}
		}
	}
}

func lmWorse(cd *lmCand, st int, why string) {
	if st == lmGood {
		return
	}
	if cd.status == lmGood || (cd.status == lmUnd && st == lmBad) {
		cd.status, cd.why = st, why
	}
}

func lmFromErr(k int) int {
	switch k {
	case lpErrNonNil:
		return lmGood
	case lpErrNil:
		return lmBad
	}
	return lmUnd
}

// evalFrom decides `p op t` for all p ≥ pmin.
func lmEvalFrom(op token.Token, t, pmin int64) (val, known bool) {
	switch op {
	case token.GTR:
		if pmin > t {
			return true, true
		}
	case token.GEQ:
		if pmin >= t {
			return true, true
		}
	case token.LSS:
		if pmin >= t {
			return false, true
		}
	case token.LEQ:
		if pmin > t {
			return false, true
		}
	case token.EQL:
		if pmin > t {
			return false, true
		}
	case token.NEQ:
		if pmin > t {
			return true, true
		}
	}
	return false, false
}

// loopExitsReject: every edge leaving the loop other than the counter test
// leads only to returns with a non-nil error.
func (an *lmAn) loopExitsReject(L *lmLoop) (int, string) {
	P := an.c.P
	worst, why := lmGood, ""
	var bs []*ssa.BasicBlock
	for b := range L.blocks {
		bs = append(bs, b)
	}
	sort.Slice(bs, func(i, j int) bool { return bs[i].Index < bs[j].Index })
	for _, b := range bs {
		for _, s := range b.Succs {
			if L.blocks[s] || b == L.hdr {
				continue
			}
			k, w := lpRejects(P, s)
			switch lmFromErr(k) {
			case lmBad:
				return lmBad, "the loop over the keys can be left early without an error (" + w + ")"
			case lmUnd:
				worst, why = lmUnd, "an early exit of the loop over the keys cannot be classified ("+w+")"
			}
		}
	}
	return worst, why
}

// nodeErrEdge: the edge taken when loading the root node failed. Returns
// behind it are judged by the load-error obligation, not by every clause.
func (an *lmAn) nodeErrEdge(from, to *ssa.BasicBlock) bool {
	if len(from.Instrs) == 0 || len(from.Succs) != 2 || from.Succs[0] == from.Succs[1] {
		return false
	}
	iff, ok := from.Instrs[len(from.Instrs)-1].(*ssa.If)
	if !ok {
		return false
	}
	tv, tnn, ok := ir.NilTest(iff.Cond)
	if !ok {
		return false
	}
	for _, nc := range an.nodeCalls {
		if e, _ := lpErrorValue(nc); e != nil && ir.ResolveCell(tv) == e {
			nn := from.Succs[0]
			if !tnn {
				nn = from.Succs[1]
			}
			return to == nn
		}
	}
	return false
}

func (an *lmAn) gate(cd *lmCand) {
	P := an.c.P
	cd.status = lmGood
	cd.rej = lmBad
	// 1. the edge rejects in its own function
	k, why := lpRejects(P, cd.iff.Block().Succs[cd.edge])
	lmWorse(cd, lmFromErr(k), "the edge taken when `"+cd.desc+"` "+why)
	if cd.status == lmBad {
		return
	}
	// 2. the rejection is propagated by every caller up to the validator
	for f := cd.fr; f.parent != nil; f = f.parent {
		k, why := lpPropagates(P, f.site)
		lmWorse(cd, lmFromErr(k), fmt.Sprintf("the error of helper %s is not propagated by %s: %s", ir.FuncName(f.fn), ir.FuncName(f.parent.fn), why))
	}
	cd.rej = cd.status
	// 3. the branch cannot be bypassed
	pivot := cd.iff.Block()
	for f := cd.fr; f != nil; f = f.parent {
		if cd.loop != nil && cd.loop.fr == f {
			L := cd.loop
			if L.field != "Key" {
				lmWorse(cd, lmBad, "the loop counts up to len("+L.field+"), not len(Key)")
			}
			if !L.blocks[pivot] {
				lmWorse(cd, lmBad, "the test is not inside the loop over the keys")
			} else {
				st, w := an.loopExitsReject(L)
				lmWorse(cd, st, w)
				// required counter values and coverage
				var pmin int64
				if cd.clause == 3 {
					pmin = -cd.a
					if L.c0 > -cd.a {
						lmWorse(cd, lmBad, fmt.Sprintf("the loop starts at key index %d: the pair (Key[0], Key[1]) … is not compared from the first pair on", L.c0+cd.a+1))
					}
					if L.H < -cd.a-1 {
						lmWorse(cd, lmBad, "the loop stops before the last adjacent pair of keys")
					}
					if cd.prev && -cd.a < L.c0+1 {
						lmWorse(cd, lmUnd, "the loop-carried previous key is used in the first iteration")
					}
				} else {
					pmin = -cd.a
					if L.c0 > pmin {
						lmWorse(cd, lmBad, fmt.Sprintf("the loop starts at key index %d: key 0 is not examined", L.c0+cd.a))
					}
					if L.c0 < pmin {
						pmin = -cd.a
					}
					if L.H+cd.a < 0 {
						lmWorse(cd, lmBad, "the loop stops before the last key")
					}
					if cd.prev {
						lmWorse(cd, lmBad, "the layer of the previous key is tested: the last key is never examined")
					}
				}
				if pmin < L.c0 {
					pmin = L.c0
				}
				skip := func(from, to *ssa.BasicBlock) bool {
					if len(from.Instrs) == 0 || len(from.Succs) != 2 {
						return false
					}
					iff, ok := from.Instrs[len(from.Instrs)-1].(*ssa.If)
					if !ok {
						return false
					}
					if cd.clause == 4 && lmZeroHeightEdge(cd.iff, iff, from, to) {
						// `if m.height > 0 && layer < m.height`: on the edge that skips the test the height is 0, and no
						// unsigned layer is below 0 — the guard is implied by the test, the bypass rejects nothing less
						return true
					}
					A, B, op, ok := an.rel(iff.Cond, f)
					if !ok {
						return false
					}
					if B.k == lmIdx && B.loop == L && A.k == lmConst {
						A, B = B, A
						op = lpFlipOp(op)
					}
					if A.k != lmIdx || A.loop != L || B.k != lmConst {
						return false
					}
					val, known := lmEvalFrom(op, B.add-A.add, pmin)
					if !known {
						return false
					}
					if val {
						return to == from.Succs[1]
					}
					return to == from.Succs[0]
				}
				if by, w := lpAvoidReachesSuccess(P, L.stay, pivot, L.hdr, L.blocks, skip, nil); by {
					_ = w
					lmWorse(cd, lmBad, "an iteration of the loop over the keys can reach the next iteration without executing the test (guard, continue or branch skips it)")
				}
				if by, w := lpAvoidReachesSuccess(P, f.fn.Blocks[0], L.hdr, nil, nil, an.infeasible(f), f.counts); by {
					lmWorse(cd, lmBad, "the loop over the keys can be bypassed: "+w+" is reachable without entering it")
				}
			}
		} else {
			if by, w := lpAvoidReachesSuccess(P, f.fn.Blocks[0], pivot, nil, nil, an.infeasible(f), f.counts); by {
				lmWorse(cd, lmBad, fmt.Sprintf("the test can be bypassed in %s: %s is reachable without executing it", ir.FuncName(f.fn), w))
			}
		}
		if f.site != nil {
			pivot = f.site.Block()
		}
	}
}

// covered: do the atoms reject every required difference? returns an
// uncovered example otherwise.
func lmCovered(clause int, atoms []lmAtom) (bool, int64) {
	probes := []int64{-1000000, 1000000, -2, -1, 0, 1, 2, 3}
	for _, a := range atoms {
		for d := int64(-2); d <= 2; d++ {
			probes = append(probes, a.d+d)
		}
	}
	abs := func(n int64) int64 {
		if n < 0 {
			return -n
		}
		return n
	}
	sort.Slice(probes, func(i, j int) bool {
		if abs(probes[i]) != abs(probes[j]) {
			return abs(probes[i]) < abs(probes[j])
		}
		return probes[i] > probes[j]
	})
	for _, x := range probes {
		if !lmRequired(clause, x) {
			continue
		}
		hit := false
		for _, a := range atoms {
			if a.holds(x) {
				hit = true
			}
		}
		if !hit {
			return false, x
		}
	}
	return true, 0
}

func lmOverReject(clause int, atoms []lmAtom) (bool, int64) {
	for _, x := range []int64{-1000000, -3, -2, -1, 0, 1, 2, 3, 1000000} {
		if lmRequired(clause, x) {
			continue
		}
		for _, a := range atoms {
			if a.holds(x) {
				return true, x
			}
		}
	}
	return false, 0
}

func lmUncoveredText(clause int, x int64) string {
	switch clause {
	case 1:
		if x < 0 {
			return "a node with fewer keys than values is accepted"
		}
		return "a node with more keys than values is accepted"
	case 2:
		return fmt.Sprintf("a node whose link count is not its key count + 1 (e.g. len(Link)-len(Key) = %d) is accepted", x)
	case 3:
		if x == 0 {
			return "equal adjacent keys (comparator result 0) are accepted: the keys need not be strictly ascending"
		}
		return fmt.Sprintf("descending adjacent keys (comparator result %d) are accepted", x)
	case 4:
		return "a key whose layer is below the recorded height is accepted"
	}
	return ""
}

func runROOTCLAUSES(c *Ctx) {
	P := c.P
	lm := c.MustFunc("(*Root).LoadMast")
	if lm == nil {
		return
	}
	vals := lmValidators(c, lm)
	if len(vals) == 0 {
		c.AnchorMissing("root validator called from LoadMast")
		return
	}
	an := &lmAn{c: c, memo: map[lmKey]*lmVal{}, loops: map[lmKey]*lmLoop{}, near: map[int][]string{}, nearUnd: map[int][]string{}, nearPos: map[int]string{}}
	var names []string
	for _, v := range vals {
		mp := lpMastParam(v.fn)
		fr := &lmFrame{fn: v.fn, env: map[*ssa.Parameter]*lmVal{v.fn.Params[mp]: {k: lmMast}}}
		an.walk(fr)
		names = append(names, ir.FuncName(v.fn))
	}
	// what the load path has already rejected when the validator sees the node
	var loader *lmLoader
	loaderOK := len(an.nodeCalls) > 0
	for _, nc := range an.nodeCalls {
		l := an.loaderOf(nc)
		if k, _ := lpPropagates(P, nc); k != lpErrNonNil || len(l.opaque) > 0 {
			loaderOK = false
		}
		if loader == nil {
			loader = l
		} else {
			loaderOK = false // two loads of the root: not combined
		}
	}
	if loaderOK {
		an.preAcc = lmDeriveAccepted(loader.good)
	}
	for _, cd := range an.cands {
		an.gate(cd)
	}
	V := vals[0].fn
	vname := strings.Join(names, ", ")

	// the examined node is the result of loading m.root, and the load error is propagated
	if len(an.nodeCalls) == 0 {
		c.Violation(V, P.Pos(V.Pos()), "root node = load(m.root)",
			"the validator "+vname+" does not load the node named by m.root: a missing or undecodable top node is not detected and no clause examines the root node")
	} else {
		for _, nc := range an.nodeCalls {
			c.OK(P.InstrPos(nc), "validator loads the node named by m.root", "call of "+lpCallName(&nc.Call)+" with the validated Mast and a load of its root field", false)
			k, why := lpPropagates(P, nc)
			switch k {
			case lpErrNonNil:
				c.OK(P.InstrPos(nc), "error of loading the root node is propagated", "its non-nil edge reaches only error returns", false)
			case lpErrNil:
				c.Violation(nc.Parent(), P.InstrPos(nc), "load error of the root node",
					"the error of loading the top node is not propagated ("+why+"): a missing or undecodable top node is accepted")
			default:
				c.Undecided(nc.Parent(), P.InstrPos(nc), "load error of the root node", "cannot decide that a load error leads only to error returns: "+why)
			}
		}
	}

	lmCheckListRepairs(c, an)
	for clause := 1; clause <= 4; clause++ {
		name := lmClauseName[clause]
		construct := "clause " + name
		var good, und, bad []*lmCand
		for _, cd := range an.cands {
			if cd.clause != clause {
				continue
			}
			switch cd.status {
			case lmGood:
				good = append(good, cd)
			case lmUnd:
				und = append(und, cd)
			default:
				bad = append(bad, cd)
			}
		}
		atoms := func(cs ...[]*lmCand) []lmAtom {
			var out []lmAtom
			for _, l := range cs {
				for _, cd := range l {
					out = append(out, cd.atom)
				}
			}
			return out
		}
		if clause <= 2 {
			// count clauses: enforced by the validator, by the load path, or jointly
			all := map[int][]lmAtom{}
			allU := map[int][]lmAtom{}
			var ds []string
			for _, cd := range an.cands {
				if cd.clause != 1 && cd.clause != 2 && cd.clause != 5 {
					continue
				}
				if cd.status == lmGood {
					all[cd.clause] = append(all[cd.clause], cd.atom)
					ds = append(ds, "`"+cd.desc+"` at "+P.InstrPos(cd.iff))
				}
				if cd.status != lmBad {
					allU[cd.clause] = append(allU[cd.clause], cd.atom)
				}
			}
			if vok, _ := lmCountClauseHolds(clause, all); vok {
				c.OK(P.InstrPos(lmGood0(an.cands, clause, V, P)), construct+" in "+vname, "rejecting branch(es) "+strings.Join(ds, ", ")+": unavoidable, reach only error returns", false)
				continue
			}
			if loader != nil {
				for ax, a := range loader.good {
					allU[ax] = append(allU[ax], a...)
					if loaderOK {
						all[ax] = append(all[ax], a...)
					}
				}
				for ax, a := range loader.und {
					allU[ax] = append(allU[ax], a...)
				}
			}
			if lok, _ := lmCountClauseHolds(clause, all); lok {
				why := "rejected while the top node is obtained: " + strings.Join(loader.descs, ", ") + " (unavoidable before the decoded node is returned, error passed on to LoadMast)"
				if len(ds) > 0 {
					why += "; validator: " + strings.Join(ds, ", ")
				}
				if len(loader.exempt) > 0 {
					why += "; not decoded, hence exempt: " + strings.Join(loader.exempt, "; ")
				}
				c.OK(P.InstrPos(an.nodeCalls[0]), construct+" on the LoadMast path", why, false)
				continue
			}
			if uok, _ := lmCountClauseHolds(clause, allU); uok {
				var ws []string
				for _, cd := range und {
					ws = append(ws, "`"+cd.desc+"`: "+cd.why)
				}
				if loader != nil && !loaderOK {
					ws = append(ws, "the load path has the clause but cannot be followed completely: "+strings.Join(loader.opaque, "; "))
				}
				if loader != nil && len(loader.und) > 0 {
					ws = append(ws, "a branch of the load path could not be decided")
				}
				c.Undecided(V, P.Pos(V.Pos()), construct, "cannot decide clause "+name+": "+strings.Join(ws, "; "))
				continue
			}
		}
		if ok, _ := lmCovered(clause, atoms(good)); ok {
			var ds, notes []string
			for _, cd := range good {
				ds = append(ds, "`"+cd.desc+"` at "+P.InstrPos(cd.iff))
				if cd.note != "" {
					notes = append(notes, cd.note)
				}
			}
			why := "rejecting branch(es) " + strings.Join(ds, ", ") + ": unavoidable, reach only error returns"
			if len(notes) > 0 {
				why += "; " + strings.Join(notes, "; ")
			}
			c.OK(P.InstrPos(good[0].iff), construct+" in "+vname, why, false)
			if over, x := lmOverReject(clause, atoms(good)); over {
				c.Note("clause %s: the validator also rejects the conforming difference %d (not a C19 matter)", name, x)
			}
			continue
		}
		pos := P.Pos(V.Pos())
		fn := V
		pick := func(l []*lmCand) {
			if len(l) > 0 {
				pos = P.InstrPos(l[0].iff)
				fn = l[0].fr.fn
			}
		}
		if ok, _ := lmCovered(clause, atoms(good, und)); ok || (len(an.nearUnd[clause]) > 0 && len(good)+len(bad) == 0) {
			pick(und)
			var ws []string
			for _, cd := range und {
				ws = append(ws, "`"+cd.desc+"`: "+cd.why)
			}
			ws = append(ws, an.nearUnd[clause]...)
			if len(und) == 0 && an.nearPos[clause] != "" {
				pos = an.nearPos[clause]
			}
			c.Undecided(fn, pos, construct, "cannot decide clause "+name+": "+strings.Join(ws, "; "))
			continue
		}
		// a value of the clause flows where the rule does not follow it: undecided
		if len(good)+len(bad)+len(und) == 0 && len(an.near[clause]) == 0 {
			var flows []string
			flows = append(flows, an.opaque...)
			used := func(call *ssa.Call) bool {
				if call.Referrers() == nil {
					return false
				}
				for _, r := range *call.Referrers() {
					if ex, ok := r.(*ssa.Extract); ok && ex.Index == 0 && lpUsed(ex) {
						return true
					}
				}
				return false
			}
			if clause == 3 {
				for _, oc := range an.orderCalls {
					if oc.a.k == lmElem && oc.b.k == lmElem && used(oc.call) {
						flows = append(flows, fmt.Sprintf("the result of keyOrder(%s, %s) at %s is used in a way the rule does not follow", oc.a, oc.b, P.InstrPos(oc.call)))
						pos = P.InstrPos(oc.call)
					}
				}
			}
			if clause == 4 {
				for _, lc := range an.layerCalls {
					if lc.a.k == lmElem && lc.b.k == lmBF && used(lc.call) {
						flows = append(flows, fmt.Sprintf("the result of keyLayer(%s, %s) at %s is used in a way the rule does not follow", lc.a, lc.b, P.InstrPos(lc.call)))
						pos = P.InstrPos(lc.call)
					}
				}
			}
			if len(flows) > 0 {
				c.Undecided(fn, pos, construct, "cannot decide clause "+name+": "+strings.Join(flows, "; "))
				continue
			}
		}
		// violation: say what is there
		var ws []string
		_, x := lmCovered(clause, atoms(good))
		if len(good) > 0 {
			pick(good)
			var ds []string
			for _, cd := range good {
				ds = append(ds, "`"+cd.desc+"`")
			}
			ws = append(ws, "the rejecting test "+strings.Join(ds, ", ")+" is too weak: "+lmUncoveredText(clause, x))
		} else {
			ws = append(ws, "no unavoidable branch of "+vname+" (or its callees) rejects "+name+": "+lmUncoveredText(clause, x))
			if clause <= 2 {
				ws = append(ws, "the load path that hands the top node to the validator does not reject it either")
			}
		}
		// bad candidates whose relation would have helped
		shown := 0
		for _, cd := range bad {
			if cd.atom.holds(x) || len(good) == 0 {
				if shown == 0 && len(good) == 0 {
					pick([]*lmCand{cd})
				}
				// only the edge that would reject something required is interesting
				if ok, _ := lmCovered(clause, []lmAtom{cd.atom}); ok || cd.atom.holds(x) {
					ws = append(ws, "`"+cd.desc+"` at "+P.InstrPos(cd.iff)+" does not count: "+cd.why)
					shown++
				}
			}
		}
		ws = append(ws, an.near[clause]...)
		if len(good) == 0 && shown == 0 && an.nearPos[clause] != "" {
			pos = an.nearPos[clause]
		}
		if clause == 3 && len(good) == 0 && shown == 0 && len(an.near[3]) == 0 {
			for _, oc := range an.orderCalls {
				ws = append(ws, fmt.Sprintf("keyOrder is called with (%s, %s) at %s", oc.a, oc.b, P.InstrPos(oc.call)))
				pos = P.InstrPos(oc.call)
			}
			if len(an.orderCalls) == 0 {
				ws = append(ws, "the validator never calls m.keyOrder")
			}
		}
		if clause == 4 && len(good) == 0 && shown == 0 && len(an.near[4]) == 0 {
			for _, lc := range an.layerCalls {
				ws = append(ws, fmt.Sprintf("keyLayer is called with (%s, %s) at %s but its result is not compared with m.height on a rejecting branch", lc.a, lc.b, P.InstrPos(lc.call)))
				pos = P.InstrPos(lc.call)
			}
			if len(an.layerCalls) == 0 {
				ws = append(ws, "the validator never calls m.keyLayer")
			}
		}
		c.Violation(fn, pos, construct, strings.Join(ws, "; "))
	}
}

// ---- NOPANICLOAD ------------------------------------------------------------------

type lmTaint struct {
	c       *Ctx
	entry   *ssa.Function
	reach   map[*ssa.Function]bool
	callers map[*ssa.Function][]ssa.CallInstruction
	closers map[*ssa.Function][]*ssa.MakeClosure
}

// dep computes whether v depends on the contents of a loaded node.
func (t *lmTaint) dep(root ssa.Value) (tainted bool, unknown bool, why string) {
	seen := map[ssa.Value]bool{}
	work := []ssa.Value{root}
	push := func(v ssa.Value) {
		if v != nil && !seen[v] {
			seen[v] = true
			work = append(work, v)
		}
	}
	seen[root] = true
	steps := 0
	for len(work) > 0 {
		v := work[len(work)-1]
		work = work[:len(work)-1]
		steps++
		if steps > 4000 {
			return false, true, "dependence slice too large"
		}
		switch x := v.(type) {
		case *ssa.Const, *ssa.Global, *ssa.Function, *ssa.Builtin:
		case *ssa.Parameter:
			fn := x.Parent()
			if fn == t.entry {
				continue
			}
			idx := paramIndex(x)
			cs := t.callers[fn]
			if len(cs) == 0 {
				unknown, why = true, "parameter "+x.Name()+" of "+ir.FuncName(fn)+" has no resolved caller"
				continue
			}
			for _, ci := range cs {
				args := ci.Common().Args
				if idx < len(args) {
					push(args[idx])
				}
			}
		case *ssa.FreeVar:
			fn := x.Parent()
			idx := -1
			for i, fv := range fn.FreeVars {
				if fv == x {
					idx = i
				}
			}
			for _, mc := range t.closers[fn] {
				if idx >= 0 && idx < len(mc.Bindings) {
					push(mc.Bindings[idx])
				}
			}
		case *ssa.Alloc:
			// a local: the values stored into it, and — when its address is
			// handed to a callee that fills it — what that callee computes from
			var addrs []ssa.Value
			addrs = append(addrs, x)
			for i := 0; i < len(addrs) && i < 16; i++ {
				rs := addrs[i].Referrers()
				if rs == nil {
					continue
				}
				for _, r := range *rs {
					switch y := r.(type) {
					case *ssa.Store:
						if y.Addr == addrs[i] {
							push(y.Val)
						}
					case *ssa.MakeInterface:
						addrs = append(addrs, y)
					case *ssa.ChangeType:
						addrs = append(addrs, y)
					case *ssa.Call:
						isArg := false
						for _, a := range y.Call.Args {
							if a == addrs[i] {
								isArg = true
							}
						}
						if isArg {
							push(y)
						}
					}
				}
			}
		case *ssa.UnOp:
			if x.Op != token.MUL {
				push(x.X)
				continue
			}
			switch a := x.X.(type) {
			case *ssa.FieldAddr:
				name := ir.FieldName(a.X.Type(), a.Field)
				if ir.IsPtrToNamed(a.X.Type(), "Node") && (name == "Key" || name == "Value" || name == "Link") {
					return true, false, "reads " + name + " of a node"
				}
				if isNodePtr(a.X.Type()) || lpIsMastPtr(a.X.Type()) {
					continue // node flags / tree configuration
				}
				push(a.X)
			case *ssa.IndexAddr:
				push(a.X)
				push(a.Index)
			default:
				push(x.X)
			}
		case *ssa.Call:
			ext := t.c.Facts.External(x)
			switch {
			case ext == "Persist.Load" || ext == "NodeCache.Get":
				return true, false, "result of " + ext
			case strings.HasPrefix(ext, "callback:"):
				n := strings.TrimPrefix(ext, "callback:")
				switch n {
				case "keyOrder", "keyLayer", "unmarshal", "marshal":
					return true, false, "result of the " + n + " callback applied to node contents"
				}
			}
			for _, g := range t.c.Facts.Callees(x) {
				if t.c.Facts.MayLoad[g] {
					return true, false, "result of " + ir.FuncName(g) + ", which reads nodes"
				}
			}
			for _, a := range x.Call.Args {
				push(a)
			}
			if !x.Call.IsInvoke() {
				if _, ok := x.Call.Value.(*ssa.Function); !ok {
					push(x.Call.Value)
				}
			}
		case *ssa.Extract:
			push(x.Tuple)
		case *ssa.Phi:
			for _, e := range x.Edges {
				push(e)
			}
		default:
			if ins, ok := v.(ssa.Instruction); ok {
				for _, op := range ins.Operands(nil) {
					if op != nil && *op != nil {
						push(*op)
					}
				}
			}
		}
	}
	return false, unknown, why
}

func runNOPANICLOAD(c *Ctx) {
	P := c.P
	lm := c.MustFunc("(*Root).LoadMast")
	if lm == nil {
		return
	}
	pr := newLpPrune(c)
	res := newLpResolver(c)
	if pr.debugFalse {
		c.OK("-", "Mast.debug is never set: panics and calls guarded by it are excluded", pr.debugWhy, true)
	} else {
		c.Note("Mast.debug may be set (%s): debug-guarded code is NOT excluded", pr.debugWhy)
	}
	// reachability over live blocks (panic-bound blocks included)
	reach := map[*ssa.Function]bool{lm: true}
	prev := map[*ssa.Function]*ssa.Function{}
	tn := &lmTaint{c: c, entry: lm, reach: reach, callers: map[*ssa.Function][]ssa.CallInstruction{}, closers: map[*ssa.Function][]*ssa.MakeClosure{}}
	q := []*ssa.Function{lm}
	for len(q) > 0 {
		fn := q[0]
		q = q[1:]
		f := pr.of(fn)
		for _, b := range fn.Blocks {
			if !f.live[b] {
				continue
			}
			for _, ins := range b.Instrs {
				var next []*ssa.Function
				switch x := ins.(type) {
				case ssa.CallInstruction:
					for _, g := range res.Callees(x) {
						tn.callers[g] = append(tn.callers[g], x)
						next = append(next, g)
					}
				case *ssa.MakeClosure:
					if g, ok := x.Fn.(*ssa.Function); ok {
						tn.closers[g] = append(tn.closers[g], x)
						next = append(next, g)
					}
				}
				for _, g := range next {
					if !reach[g] && g.Blocks != nil {
						reach[g] = true
						prev[g] = fn
						q = append(q, g)
					}
				}
			}
		}
	}
	var fns []*ssa.Function
	for fn := range reach {
		fns = append(fns, fn)
	}
	sort.Slice(fns, func(i, j int) bool { return ir.PosLess(fns[i].Pos(), fns[j].Pos()) })
	readers := 0
	for _, fn := range fns {
		if c.Facts.MayLoad[fn] {
			readers++
		}
	}
	vok := false
	for _, v := range lmValidators(c, lm) {
		if reach[v.fn] && !v.byName {
			vok = true
		}
	}
	if vok && readers > 0 {
		c.OK(P.Pos(lm.Pos()), fmt.Sprintf("load path scanned: %d functions reachable from LoadMast, %d of them read nodes, validator included", len(fns), readers),
			"every explicit panic in them is examined below", false)
	} else {
		c.Undecided(lm, P.Pos(lm.Pos()), "load path", "LoadMast does not reach a root validator that reads the top node: the load path cannot be identified")
	}
	for _, fn := range fns {
		f := pr.of(fn)
		lmCheckConstIndexes(c, f, fn, lbChain(prev, fn))
		lmCheckNilConfig(c, res, tn, f, fn, lbChain(prev, fn))
		for _, b := range fn.Blocks {
			if len(b.Instrs) == 0 {
				continue
			}
			pn, ok := b.Instrs[len(b.Instrs)-1].(*ssa.Panic)
			if !ok {
				continue
			}
			pos := P.InstrPos(pn)
			if !f.live[b] {
				c.OK(pos, "panic in "+ir.FuncName(fn), "unreachable: behind a constant-false condition or Mast.debug", true)
				continue
			}
			guards := f.lpGuardsOf(b)
			text := lpGuardText(guards)
			what := "panic if " + text + " in " + ir.FuncName(fn)
			chain := lbChain(prev, fn)
			if len(guards) == 0 {
				c.Undecided(fn, pos, "panic: unconditional", "an unconditional panic is reachable from LoadMast via "+fmtChain(chain)+"; whether the call is data-dependent is not decided", "chain: "+fmtChain(chain))
				continue
			}
			tainted, unknown := false, false
			var why string
			for _, g := range guards {
				tt, uu, ww := tn.dep(g.If.Cond)
				if tt {
					tainted, why = true, ww
					break
				}
				if uu {
					unknown, why = true, ww
				}
			}
			switch {
			case tainted:
				c.Violation(fn, pos, "panic: "+text,
					fmt.Sprintf("loading a root can panic instead of returning an error: %s panics when %s (%s); reachable from LoadMast via %s",
						ir.FuncName(fn), text, why, fmtChain(chain)), "chain: "+fmtChain(chain))
			case unknown:
				c.Undecided(fn, pos, "panic: "+text, "cannot decide whether the guard depends on loaded data: "+why, "chain: "+fmtChain(chain))
			default:
				c.OK(pos, what, "the guard depends only on the configuration, not on the contents of a loaded node", false)
			}
		}
	}
}

// ---- ROOTCLAUSES: clauses enforced while the top node is obtained ----------------
//
// A C19 clause holds on the LoadMast path when it is enforced by the validator
// OR by every path through which the load primitive hands out the top node
// (today: loadPersisted decodes into a local node, runs checkLoadedNode on it
// and returns its error). The three count differences are linked:
// (Link−Value) = (Key−Value) + (Link−Key), so two of them fix the third.

const lmWindow = 12

// lmAccepted: the values of a count difference not rejected by atoms, and
// whether that set is finite (everything far away is rejected).
func lmAccepted(atoms []lmAtom) (vals []int64, finite bool) {
	rejected := func(x int64) bool {
		for _, a := range atoms {
			if a.holds(x) {
				return true
			}
		}
		return false
	}
	if !rejected(-1000000) || !rejected(1000000) {
		return nil, false
	}
	lo, hi := int64(-lmWindow), int64(lmWindow)
	for _, a := range atoms {
		if a.d-2 < lo {
			lo = a.d - 2
		}
		if a.d+2 > hi {
			hi = a.d + 2
		}
	}
	if hi-lo > 4096 {
		return nil, false
	}
	for x := lo; x <= hi; x++ {
		if !rejected(x) {
			vals = append(vals, x)
		}
	}
	return vals, true
}

// lmDeriveAccepted closes the accepted sets of axes 1 (Key−Value), 2 (Link−Key)
// and 5 (Link−Value) under D5 = D1 + D2.
func lmDeriveAccepted(atoms map[int][]lmAtom) map[int][]int64 {
	acc := map[int][]int64{}
	fin := map[int]bool{}
	for _, ax := range []int{1, 2, 5} {
		acc[ax], fin[ax] = lmAccepted(atoms[ax])
	}
	inter := func(ax int, cand []int64) {
		if !fin[ax] {
			acc[ax], fin[ax] = cand, true
			return
		}
		var out []int64
		for _, x := range acc[ax] {
			for _, y := range cand {
				if x == y {
					out = append(out, x)
					break
				}
			}
		}
		acc[ax] = out
	}
	comb := func(a, b []int64, sign int64) []int64 {
		seen := map[int64]bool{}
		var out []int64
		for _, x := range a {
			for _, y := range b {
				v := x + sign*y
				if !seen[v] {
					seen[v] = true
					out = append(out, v)
				}
			}
		}
		return out
	}
	for i := 0; i < 2; i++ {
		if fin[5] && fin[2] {
			inter(1, comb(acc[5], acc[2], -1))
		}
		if fin[5] && fin[1] {
			inter(2, comb(acc[5], acc[1], -1))
		}
		if fin[1] && fin[2] {
			inter(5, comb(acc[1], acc[2], 1))
		}
	}
	out := map[int][]int64{}
	for _, ax := range []int{1, 2, 5} {
		if fin[ax] {
			if acc[ax] == nil {
				acc[ax] = []int64{}
			}
			out[ax] = acc[ax]
		}
	}
	return out
}

// lmCountClauseHolds: clause 1 (Key−Value must be 0) or 2 (Link−Key must be 1)
// given all rejecting atoms on the path; bad is an accepted wrong value.
func lmCountClauseHolds(clause int, atoms map[int][]lmAtom) (ok bool, bad int64) {
	acc, fin := lmDeriveAccepted(atoms)[clause]
	if !fin {
		_, x := lmCovered(clause, atoms[clause])
		return false, x
	}
	for _, x := range acc {
		if lmRequired(clause, x) {
			return false, x
		}
	}
	return true, 0
}

// infeasible: edges of frame f that cannot be taken on the LoadMast path: the
// root node failed to load (judged separately), or the branch asks for a count
// difference the load path has already rejected.
func (an *lmAn) infeasible(f *lmFrame) func(from, to *ssa.BasicBlock) bool {
	return func(from, to *ssa.BasicBlock) bool {
		if an.nodeErrEdge(from, to) {
			return true
		}
		if an.preAcc == nil || len(from.Instrs) == 0 || len(from.Succs) != 2 || from.Succs[0] == from.Succs[1] {
			return false
		}
		iff, ok := from.Instrs[len(from.Instrs)-1].(*ssa.If)
		if !ok {
			return false
		}
		A, B, op, ok := an.rel(iff.Cond, f)
		if !ok {
			return false
		}
		m, _, _ := an.match(A, B, op)
		if m == nil || (m.clause != 1 && m.clause != 2 && m.clause != 5) {
			return false
		}
		acc, fin := an.preAcc[m.clause]
		if !fin {
			return false
		}
		at := m.atom
		if to == from.Succs[1] {
			at.op = lpNegOp(at.op)
		}
		for _, x := range acc {
			if at.holds(x) {
				return false
			}
		}
		return true
	}
}

// lmLoader is what the load path enforces on the node before the validator
// sees it.
type lmLoader struct {
	good   map[int][]lmAtom // rejecting atoms proved on every decoding path
	und    map[int][]lmAtom // atoms of branches that could not be decided
	descs  []string         // the branches, for the obligation text
	exempt []string         // node sources that are not decoded here
	opaque []string         // node sources the rule cannot follow: nothing is assumed
	seeded int
	cands  []*lmCand // the gated candidates of the decoding path (for ROOTEXACT)
	loose  []lmLoose
	frs    []*lmFrame
}

// loaderOf analyses the load primitive called at nc (and the loaders it
// forwards to): every return that hands out a node is either exempt (an
// in-memory link, a cached node), forwarded from another loader whose error it
// passes on, or a local node the function decoded — then the count clauses are
// looked for between the decoding and that return.
func (an *lmAn) loaderOf(nc *ssa.Call) *lmLoader {
	L := &lmLoader{good: map[int][]lmAtom{}, und: map[int][]lmAtom{}}
	seen := map[*ssa.Function]bool{}
	var visit func(g *ssa.Function, depth int)
	visit = func(g *ssa.Function, depth int) {
		if seen[g] {
			return
		}
		seen[g] = true
		if depth > 3 || lpMastParam(g) < 0 {
			L.opaque = append(L.opaque, ir.FuncName(g))
			return
		}
		ei := ir.ErrorResultIndex(g.Signature)
		for _, r := range ir.Returns(g) {
			if ei < 0 || len(r.Results) < 2 || lpErrClass(r.Results[ei], r.Block(), 0) == lpErrNonNil {
				continue
			}
			r0 := ir.ResolveCell(ir.Strip(r.Results[0]))
			if ir.IsNilConst(r0) {
				continue
			}
			pos := an.c.P.InstrPos(r)
			// the decoding or the cache lookup extracted into a private helper that is not itself a loader
			// (`node, err := m.decodeNode(b, l)`, `node, ok := m.cachedNode(key)`): a helper that hands out a node
			// variable of its own that it filled makes its result the node being loaded; a helper that hands out
			// only type-asserted values is judged like the assertion itself
			var seed ssa.Value
			if ex, isEx := r0.(*ssa.Extract); isEx && ex.Index == 0 {
				if t, isCall := ex.Tuple.(*ssa.Call); isCall {
					if h := ir.Callee(t.Call); h != nil && h.Blocks != nil && isOwn(an.c.P, h) && !lmLoadLike(an.c, h) && isNodePtr(ex.Type()) {
						var asserts []*ssa.TypeAssert
						locals, other := 0, 0
						for _, hr := range ir.Returns(h) {
							if len(hr.Results) == 0 {
								other++
								continue
							}
							h0 := ir.ResolveCell(ir.Strip(hr.Results[0]))
							if ir.IsNilConst(h0) {
								continue
							}
							switch y := h0.(type) {
							case *ssa.Alloc:
								if y.Parent() == h {
									locals++
								} else {
									other++
								}
							case *ssa.TypeAssert:
								asserts = append(asserts, y)
							default:
								other++
							}
						}
						switch {
						case other == 0 && locals > 0 && len(asserts) == 0:
							seed = ex
						case other == 0 && locals == 0 && len(asserts) > 0:
							for _, ta := range asserts {
								L.assertSource(an, ta, pos)
							}
							continue
						}
					}
				}
			}
			if al, isAl := r0.(*ssa.Alloc); isAl {
				seed = al
			}
			if seed != nil {
				fr := &lmFrame{fn: g, env: map[*ssa.Parameter]*lmVal{g.Params[lpMastParam(g)]: {k: lmMast}}, seed: seed}
				sub := &lmAn{c: an.c, memo: map[lmKey]*lmVal{}, loops: map[lmKey]*lmLoop{}, near: map[int][]string{}, nearUnd: map[int][]string{}, nearPos: map[int]string{}}
				sub.walk(fr)
				L.seeded++
				if L.seeded > 1 {
					L.opaque = append(L.opaque, "a second decoding path in "+ir.FuncName(g))
					continue
				}
				L.loose = append(L.loose, sub.loose...)
				for _, cd := range sub.cands {
					sub.gate(cd)
					L.cands = append(L.cands, cd)
					L.frs = sub.frs
					if cd.clause != 1 && cd.clause != 2 && cd.clause != 5 {
						continue
					}
					switch cd.status {
					case lmGood:
						L.good[cd.clause] = append(L.good[cd.clause], cd.atom)
						L.descs = append(L.descs, fmt.Sprintf("`%s` in %s at %s", cd.desc, ir.FuncName(cd.fr.fn), an.c.P.InstrPos(cd.iff)))
					case lmUnd:
						L.und[cd.clause] = append(L.und[cd.clause], cd.atom)
					}
				}
				continue
			}
			switch x := r0.(type) {
			case *ssa.Extract:
				switch t := x.Tuple.(type) {
				case *ssa.Call:
					h := ir.Callee(t.Call)
					if x.Index != 0 || h == nil || !lmLoadLike(an.c, h) {
						L.opaque = append(L.opaque, "node returned at "+pos)
						continue
					}
					fwd := false
					if ex, ok := ir.ResolveCell(r.Results[ei]).(*ssa.Extract); ok && ex.Tuple == ssa.Value(t) && ex.Index == ei {
						fwd = true
					}
					if !fwd {
						if k, _ := lpPropagates(an.c.P, t); k != lpErrNonNil {
							L.opaque = append(L.opaque, "error of "+ir.FuncName(h)+" not passed on at "+pos)
							continue
						}
					}
					visit(h, depth+1)
				case *ssa.TypeAssert:
					L.assertSource(an, t, pos)
				default:
					L.opaque = append(L.opaque, "node returned at "+pos)
				}
			case *ssa.TypeAssert:
				L.assertSource(an, x, pos)
			default:
				L.opaque = append(L.opaque, "node returned at "+pos)
			}
		}
	}
	if g := ir.Callee(nc.Call); g != nil {
		visit(g, 0)
	}
	return L
}

// assertSource classifies a node obtained by a type assertion: on a link
// parameter (an in-memory node the library built itself) or on the result of
// NodeCache.Get (only nodes that passed the decoding path, or that flush
// wrote, are ever added to the cache).
func (L *lmLoader) assertSource(an *lmAn, t *ssa.TypeAssert, pos string) {
	src := ir.ResolveCell(t.X)
	if p, ok := src.(*ssa.Parameter); ok && types.IsInterface(p.Type()) {
		L.exempt = append(L.exempt, "in-memory link (built by the library, not decoded)")
		return
	}
	if ex, ok := src.(*ssa.Extract); ok {
		if call, ok := ex.Tuple.(*ssa.Call); ok && an.c.Facts.External(call) == "NodeCache.Get" {
			L.exempt = append(L.exempt, "cached node (entered the cache after the same checks, or written by flush)")
			return
		}
	}
	L.opaque = append(L.opaque, "node obtained by a type assertion at "+pos)
}

// good0 picks an instruction to position the obligation of a count clause.
func lmGood0(cands []*lmCand, clause int, V *ssa.Function, P *ir.Program) ssa.Instruction {
	for _, cd := range cands {
		if cd.status == lmGood && cd.clause == clause {
			return cd.iff
		}
	}
	for _, cd := range cands {
		if cd.status == lmGood && (cd.clause == 1 || cd.clause == 2 || cd.clause == 5) {
			return cd.iff
		}
	}
	return V.Blocks[0].Instrs[0]
}

// ---- NOPANICLOAD: constant indexes into a node's lists ---------------------------
//
// `node.Key[1]` panics with index out of range on a node with fewer entries.
// On the load path (where the node is untrusted data) a constant index k into
// Key, Value or Link of a node must be preceded, on every path, by a test that
// the same list holds more than k elements; a list the function itself has
// just made with a constant length > k is discharged as well.

// lmNodeList: v is the list loaded from field Key/Value/Link of a node; it
// returns the field, the symbolic address of the field and the load.
func lmNodeList(v ssa.Value) (field, addr string, ld *ssa.UnOp, ok bool) {
	u, isU := ir.ResolveCell(v).(*ssa.UnOp)
	if !isU || u.Op != token.MUL {
		return "", "", nil, false
	}
	fa, isF := u.X.(*ssa.FieldAddr)
	if !isF || !ir.IsPtrToNamed(fa.X.Type(), "Node") {
		return "", "", nil, false
	}
	f := ir.FieldName(fa.X.Type(), fa.Field)
	if f != "Key" && f != "Value" && f != "Link" {
		return "", "", nil, false
	}
	return f, ir.Sym(fa), u, true
}

func lmConstInt(v ssa.Value) (int64, bool) {
	c, ok := v.(*ssa.Const)
	if !ok || c.Value == nil || c.Value.Kind() != constant.Int {
		return 0, false
	}
	return constant.Int64Val(c.Value)
}

// lmLenOf: v is len(list at addr) + off.
func lmLenOf(v ssa.Value, addr string) (off int64, ok bool) {
	v = ir.ResolveCell(v)
	if b, isB := v.(*ssa.BinOp); isB && (b.Op == token.ADD || b.Op == token.SUB) {
		if n, isC := lmConstInt(b.Y); isC {
			if o, ok := lmLenOf(b.X, addr); ok {
				if b.Op == token.SUB {
					n = -n
				}
				return o + n, true
			}
		}
		return 0, false
	}
	call, isC := v.(*ssa.Call)
	if !isC {
		return 0, false
	}
	if bi, isB := call.Call.Value.(*ssa.Builtin); !isB || bi.Name() != "len" || len(call.Call.Args) != 1 {
		return 0, false
	}
	_, a, _, isL := lmNodeList(call.Call.Args[0])
	return 0, isL && a == addr
}

// lmLenLowerBound: the least length of the list at addr implied by fact fc
// (−1: no lower bound follows; −2: the fact compares the length with something
// that is not a constant; mentions: the fact talks about that length).
func lmLenLowerBound(fc ir.Fact, addr string) (lb int64, mentions bool) {
	cond, truth := fc.Cond, fc.Truth
	for {
		u, ok := cond.(*ssa.UnOp)
		if !ok || u.Op != token.NOT {
			break
		}
		truth = !truth
		cond = u.X
	}
	bin, ok := cond.(*ssa.BinOp)
	if !ok || lpNegOp(bin.Op) == token.ILLEGAL {
		return -1, false
	}
	op := bin.Op
	if !truth {
		op = lpNegOp(op)
	}
	var off, k int64
	if o, isL := lmLenOf(bin.X, addr); isL {
		n, isC := lmConstInt(bin.Y)
		if !isC {
			// len(L)+o op len(M)+p with len(M) ≥ 0: a lower bound follows for =, >, ≥
			if p, isM := lmAnyLen(bin.Y); isM {
				switch op {
				case token.EQL, token.GEQ:
					return p - o, true
				case token.GTR:
					return p - o + 1, true
				}
				return -1, true
			}
			return -2, true
		}
		off, k = o, n
	} else if o, isL := lmLenOf(bin.Y, addr); isL {
		n, isC := lmConstInt(bin.X)
		if !isC {
			if p, isM := lmAnyLen(bin.X); isM {
				switch lpFlipOp(op) {
				case token.EQL, token.GEQ:
					return p - o, true
				case token.GTR:
					return p - o + 1, true
				}
				return -1, true
			}
			return -2, true
		}
		off, k, op = o, n, lpFlipOp(op)
	} else {
		return -1, false
	}
	// len + off op k  ⇒  len op k-off
	t := k - off
	switch op {
	case token.GTR:
		return t + 1, true
	case token.GEQ, token.EQL:
		return t, true
	case token.NEQ:
		if t == 0 {
			return 1, true
		}
	}
	return -1, true
}

// lmCheckConstIndexes examines the constant indexes into node lists in the
// live blocks of fn.
func lmCheckConstIndexes(c *Ctx, f *lpFunc, fn *ssa.Function, chain []string) {
	P := c.P
	for _, b := range fn.Blocks {
		if !f.live[b] {
			continue
		}
		for _, ins := range b.Instrs {
			ia, ok := ins.(*ssa.IndexAddr)
			if !ok {
				continue
			}
			k, isC := lmConstInt(ia.Index)
			if !isC || k < 0 {
				continue
			}
			field, addr, ld, isL := lmNodeList(ia.X)
			if !isL {
				continue
			}
			pos := P.InstrPos(ia)
			what := fmt.Sprintf("constant index %s[%d] in %s", field, k, ir.FuncName(fn))
			construct := fmt.Sprintf("index %s[%d] without len(%s)>%d", field, k, field, k)
			// stores to the same field in this function
			var stores []*ssa.Store
			for _, bb := range fn.Blocks {
				for _, x := range bb.Instrs {
					if st, ok := x.(*ssa.Store); ok {
						if fa, ok := st.Addr.(*ssa.FieldAddr); ok && ir.Sym(fa) == addr {
							stores = append(stores, st)
						}
					}
				}
			}
			// (1) the function made the list itself, long enough
			made := false
			for _, st := range stores {
				ms, ok := st.Val.(*ssa.MakeSlice)
				if !ok || !ir.Before(st, ld) {
					continue
				}
				if n, ok := lmConstInt(ms.Len); ok && n > k {
					made = true
					for _, o := range stores {
						if o != st && !ir.Before(o, st) {
							made = false
						}
					}
				}
			}
			if made {
				c.OK(pos, what, "the list was made in this function with a constant length > "+fmt.Sprint(k), true)
				continue
			}
			// (2) a dominating test of the length
			best, mentions := int64(-1), false
			var via *ssa.BasicBlock
			for _, fc := range ir.FactsAt(b) {
				lb, m := lmLenLowerBound(fc, addr)
				mentions = mentions || (m && lb == -2)
				if lb > best {
					best, via = lb, fc.From
				}
			}
			if best >= k+1 {
				clobber := false
				for _, st := range stores {
					iff := via.Instrs[len(via.Instrs)-1]
					if !ir.Before(st, iff) {
						clobber = true
					}
				}
				if !clobber {
					c.OK(pos, what, fmt.Sprintf("dominated by a test that len(%s) ≥ %d", field, best), false)
					continue
				}
				c.Undecided(fn, pos, construct, fmt.Sprintf("%s is reassigned between the length test and the index", field), "chain: "+fmtChain(chain))
				continue
			}
			if mentions {
				c.Undecided(fn, pos, construct, fmt.Sprintf("a dominating test compares len(%s) with a non-constant; whether it implies len(%s) > %d is not decided", field, field, k), "chain: "+fmtChain(chain))
				continue
			}
			c.Violation(fn, pos, construct,
				fmt.Sprintf("%s reads %s[%d] of a node on the load path without a dominating test that the node has more than %d %s entries (tests on the path guarantee only len(%s) ≥ %d): a shorter node makes LoadMast panic (index out of range) instead of returning an error; reachable via %s",
					ir.FuncName(fn), field, k, k, field, field, lmMax0(best), fmtChain(chain)), "chain: "+fmtChain(chain))
		}
	}
}

func lmMax0(n int64) int64 {
	if n < 0 {
		return 0
	}
	return n
}

// lmAnyLen: v is len(some slice) + off.
func lmAnyLen(v ssa.Value) (off int64, ok bool) {
	v = ir.ResolveCell(v)
	if b, isB := v.(*ssa.BinOp); isB && (b.Op == token.ADD || b.Op == token.SUB) {
		if n, isC := lmConstInt(b.Y); isC {
			if o, ok := lmAnyLen(b.X); ok {
				if b.Op == token.SUB {
					n = -n
				}
				return o + n, true
			}
		}
		return 0, false
	}
	call, isC := v.(*ssa.Call)
	if !isC {
		return 0, false
	}
	bi, isB := call.Call.Value.(*ssa.Builtin)
	return 0, isB && bi.Name() == "len" && len(call.Call.Args) == 1
}

// ---- NOPANICLOAD: configuration values that may be nil -----------------------------
//
// A Mast field copied from RemoteConfig without a default (zeroKey, zeroValue,
// persist, nodeCache) is nil when the user left it unset. On the load path
// (1) reflect.New(reflect.TypeOf(x)) with x such a field panics "reflect:
// New(nil)", and (2) a method call on such an interface-typed field panics
// with a nil dereference. Either needs the field to be non-nil on every path
// to it. This is decided by valuation-pruned reachability (DESIGN §3.2): fix
// "field == nil", delete the branch edges that contradict it — including the
// entry of a counting loop over a list a surviving test proved empty — and
// ask whether the instruction is still reachable.

// lmCfgField: v is a load of field F of a Mast; returns the field address.
func lmCfgField(v ssa.Value) *ssa.FieldAddr {
	u, ok := ir.ResolveCell(ir.Strip(v)).(*ssa.UnOp)
	if !ok || u.Op != token.MUL {
		return nil
	}
	fa, ok := u.X.(*ssa.FieldAddr)
	if !ok || !lpIsMastPtr(fa.X.Type()) {
		return nil
	}
	return fa
}

func lmIsExt(call *ssa.Call, name string) bool {
	sc := ir.Callee(call.Call)
	return sc != nil && sc.String() == name
}

// lmNilVal: under the valuation "the field at sym is nil", is v nil?
func lmNilVal(v ssa.Value, sym string) bool {
	if fa := lmCfgField(v); fa != nil && ir.Sym(fa) == sym {
		return true
	}
	if call, ok := ir.ResolveCell(v).(*ssa.Call); ok && lmIsExt(call, "reflect.TypeOf") && len(call.Call.Args) == 1 {
		return lmNilVal(call.Call.Args[0], sym)
	}
	return false
}

// lmNilCond evaluates cond under the valuation.
func lmNilCond(cond ssa.Value, sym string) (val, known bool) {
	if v, ok := ir.ConstBool(cond); ok {
		return v, true
	}
	tv, tnn, ok := ir.NilTest(cond)
	if ok && lmNilVal(tv, sym) {
		return !tnn, true
	}
	return false, false
}

type lmEdge struct{ from, to *ssa.BasicBlock }

// lmReachableUnderNil: can block target execute when the configuration field
// whose address has symbolic path sym is nil?
func lmReachableUnderNil(fn *ssa.Function, sym string, target *ssa.BasicBlock) bool {
	// a store to the field in this function: do not prune anything
	for _, b := range fn.Blocks {
		for _, ins := range b.Instrs {
			if st, ok := ins.(*ssa.Store); ok {
				if fa, ok := st.Addr.(*ssa.FieldAddr); ok && ir.Sym(fa) == sym {
					return true
				}
			}
		}
	}
	dead := map[lmEdge]bool{}
	for _, b := range fn.Blocks {
		if len(b.Instrs) == 0 || len(b.Succs) != 2 || b.Succs[0] == b.Succs[1] {
			continue
		}
		iff, ok := b.Instrs[len(b.Instrs)-1].(*ssa.If)
		if !ok {
			continue
		}
		if v, known := lmNilCond(iff.Cond, sym); known {
			if v {
				dead[lmEdge{b, b.Succs[1]}] = true
			} else {
				dead[lmEdge{b, b.Succs[0]}] = true
			}
		}
	}
	reach := func(without lmEdge) map[*ssa.BasicBlock]bool {
		return ir.ReachableFrom(fn.Blocks[0], func(a, b *ssa.BasicBlock) bool {
			e := lmEdge{a, b}
			return dead[e] || e == without
		})
	}
	for round := 0; round < 4; round++ {
		live := reach(lmEdge{})
		if !live[target] {
			return false
		}
		changed := false
		for _, p := range fn.Blocks {
			if !live[p] || len(p.Instrs) == 0 || len(p.Succs) != 2 {
				continue
			}
			iff, ok := p.Instrs[len(p.Instrs)-1].(*ssa.If)
			if !ok {
				continue
			}
			// p tests `counter + k < len(S) + off` with counter ≥ c0
			bin, ok := iff.Cond.(*ssa.BinOp)
			if !ok || bin.Op != token.LSS || dead[lmEdge{p, p.Succs[0]}] {
				continue
			}
			c0, k, okc := lmCounterMin(bin.X)
			lenV, off, okl := lmLenPlus(bin.Y)
			if !okc || !okl {
				continue
			}
			// an upper bound of len(S) from tests every surviving path to p passes
			ub, have := int64(0), false
			for _, q := range fn.Blocks {
				if !live[q] || q == p || len(q.Instrs) == 0 || len(q.Succs) != 2 {
					continue
				}
				qi, ok := q.Instrs[len(q.Instrs)-1].(*ssa.If)
				if !ok {
					continue
				}
				for si, s := range q.Succs {
					e := lmEdge{q, s}
					if dead[e] || reach(e)[p] {
						continue
					}
					if u, ok := lmLenUpper(qi.Cond, si == 0, lenV); ok && (!have || u < ub) {
						ub, have = u, true
					}
				}
			}
			if have && c0+k >= ub+off {
				dead[lmEdge{p, p.Succs[0]}] = true
				changed = true
			}
		}
		if !changed {
			return true
		}
	}
	return reach(lmEdge{})[target]
}

// lmCounterMin: v is phi+k for a counter phi that starts at constants and
// only grows by one; returns its least value c0.
func lmCounterMin(v ssa.Value) (c0, k int64, ok bool) {
	var phi *ssa.Phi
	if p, isP := v.(*ssa.Phi); isP {
		phi = p
	} else if b, isB := v.(*ssa.BinOp); isB && b.Op == token.ADD {
		if p, isP := b.X.(*ssa.Phi); isP {
			if n, isC := lmConstInt(b.Y); isC {
				phi, k = p, n
			}
		}
	}
	if phi == nil {
		return 0, 0, false
	}
	have := false
	for _, e := range phi.Edges {
		if n, isP := lmPhiPlus(e, phi); isP && n == 1 {
			continue
		}
		n, isC := lmConstInt(e)
		if !isC {
			return 0, 0, false
		}
		if !have || n < c0 {
			c0, have = n, true
		}
	}
	return c0, k, have
}

// lmLenPlus: v is len(S)+off; returns the symbolic path of S.
func lmLenPlus(v ssa.Value) (s string, off int64, ok bool) {
	if b, isB := v.(*ssa.BinOp); isB && (b.Op == token.ADD || b.Op == token.SUB) {
		if n, isC := lmConstInt(b.Y); isC {
			if s, o, ok := lmLenPlus(b.X); ok {
				if b.Op == token.SUB {
					n = -n
				}
				return s, o + n, true
			}
		}
		return "", 0, false
	}
	call, isC := v.(*ssa.Call)
	if !isC {
		return "", 0, false
	}
	if bi, isB := call.Call.Value.(*ssa.Builtin); !isB || bi.Name() != "len" || len(call.Call.Args) != 1 {
		return "", 0, false
	}
	return ir.Sym(call.Call.Args[0]), 0, true
}

// lmLenUpper: cond with outcome truth implies len(S) ≤ ub for the list s.
func lmLenUpper(cond ssa.Value, truth bool, s string) (ub int64, ok bool) {
	for {
		u, isU := cond.(*ssa.UnOp)
		if !isU || u.Op != token.NOT {
			break
		}
		truth = !truth
		cond = u.X
	}
	bin, isB := cond.(*ssa.BinOp)
	if !isB || lpNegOp(bin.Op) == token.ILLEGAL {
		return 0, false
	}
	op := bin.Op
	if !truth {
		op = lpNegOp(op)
	}
	x, y := bin.X, bin.Y
	if _, isC := lmConstInt(x); isC {
		x, y = y, x
		op = lpFlipOp(op)
	}
	ls, off, isL := lmLenPlus(x)
	n, isC := lmConstInt(y)
	if !isL || !isC || ls != s {
		return 0, false
	}
	t := n - off // len op t
	switch op {
	case token.LSS:
		return t - 1, true
	case token.LEQ, token.EQL:
		return t, true
	}
	return 0, false
}

// lmFieldMayBeNil: may field fa of a Mast be nil? No, if every value the
// repository stores into that field is certainly non-nil.
func lmFieldMayBeNil(res *lpResolver, fa *ssa.FieldAddr) bool {
	vals := res.fieldSt[lpFieldKey(fa.X.Type(), fa.Field)]
	if len(vals) == 0 {
		return true
	}
	for _, v := range vals {
		switch x := v.(type) {
		case *ssa.MakeInterface, *ssa.MakeClosure, *ssa.Function, *ssa.Alloc, *ssa.MakeSlice, *ssa.MakeMap:
		case *ssa.Const:
			if x.Value == nil {
				return true
			}
		default:
			return true
		}
	}
	// NewInMemory-style literals that do not mention the field leave it nil:
	// a field that is not set by every constructor may be nil as well.
	return true
}

// lmNilGuarded: instruction at (in fn) cannot execute while the configuration
// field fa is nil — decided in fn, or else at every caller of fn (one level),
// where the Mast handed to fn plays the role of fa's base.
func lmNilGuarded(tn *lmTaint, fn *ssa.Function, fa *ssa.FieldAddr, at ssa.Instruction) (bool, string) {
	if !lmReachableUnderNil(fn, ir.Sym(fa), at.Block()) {
		return true, "unreachable when the field is nil (tests in " + ir.FuncName(fn) + ")"
	}
	p, ok := ir.ResolveCell(fa.X).(*ssa.Parameter)
	if !ok || p.Parent() != fn {
		return false, ""
	}
	idx := paramIndex(p)
	cs := tn.callers[fn]
	if len(cs) == 0 {
		return false, ""
	}
	for _, ci := range cs {
		args := ci.Common().Args
		if idx >= len(args) || ci.Parent() == fn {
			return false, ""
		}
		sym := ir.Sym(args[idx]) + "." + ir.FieldName(fa.X.Type(), fa.Field)
		if lmReachableUnderNil(ci.Parent(), sym, ci.Block()) {
			return false, ""
		}
	}
	return true, fmt.Sprintf("every one of the %d call sites of %s is unreachable when the field is nil", len(cs), ir.FuncName(fn))
}

// lmCheckNilConfig examines reflect.New(TypeOf(field)) and method calls on
// interface-typed configuration fields in the live blocks of fn.
func lmCheckNilConfig(c *Ctx, res *lpResolver, tn *lmTaint, f *lpFunc, fn *ssa.Function, chain []string) {
	P := c.P
	for _, b := range fn.Blocks {
		if !f.live[b] {
			continue
		}
		for _, ins := range b.Instrs {
			call, ok := ins.(*ssa.Call)
			if !ok {
				continue
			}
			pos := P.InstrPos(call)
			// (2) method call on an interface-typed configuration field
			if call.Call.IsInvoke() {
				fa := lmCfgField(call.Call.Value)
				if fa == nil {
					continue
				}
				fname := ir.FieldName(fa.X.Type(), fa.Field)
				what := fmt.Sprintf("method call m.%s.%s in %s", fname, call.Call.Method.Name(), ir.FuncName(fn))
				if !lmFieldMayBeNil(res, fa) {
					c.OK(pos, what, "every store to the field stores a non-nil value", true)
					continue
				}
				if ok, why := lmNilGuarded(tn, fn, fa, call); ok {
					c.OK(pos, what, why, false)
					continue
				}
				c.Violation(fn, pos, fmt.Sprintf("method call on m.%s without m.%s!=nil", fname, fname),
					fmt.Sprintf("%s calls %s on the configuration field m.%s, which is nil when the user left it unset, and nothing on the path tests it: LoadMast panics (nil dereference) instead of returning an error; reachable via %s",
						ir.FuncName(fn), call.Call.Method.Name(), fname, fmtChain(chain)), "chain: "+fmtChain(chain))
				continue
			}
			// (1) reflect.New(t)
			if !lmIsExt(call, "reflect.New") || len(call.Call.Args) != 1 {
				continue
			}
			t := ir.ResolveCell(call.Call.Args[0])
			what := "reflect.New in " + ir.FuncName(fn)
			guarded := false
			for _, fc := range ir.FactsAt(b) {
				tv, tnn, ok := ir.NilTest(fc.Cond)
				if ok && fc.Truth == tnn && (ir.ResolveCell(tv) == t || lmSameCellLoad(fn, ir.ResolveCell(tv), t)) {
					guarded = true
				}
			}
			if guarded {
				c.OK(pos, what, "dominated by a test that the type is not nil", false)
				continue
			}
			tc, isCall := t.(*ssa.Call)
			if isCall && lmIsExt(tc, "reflect.TypeOf") && len(tc.Call.Args) == 1 {
				if fa := lmCfgField(tc.Call.Args[0]); fa != nil {
					fname := ir.FieldName(fa.X.Type(), fa.Field)
					what = fmt.Sprintf("reflect.New(TypeOf(m.%s)) in %s", fname, ir.FuncName(fn))
					if ok, why := lmNilGuarded(tn, fn, fa, call); ok {
						c.OK(pos, what, why, false)
						continue
					}
					c.Violation(fn, pos, fmt.Sprintf("reflect.New(TypeOf(m.%s)) without m.%s!=nil", fname, fname),
						fmt.Sprintf("%s calls reflect.New on the type of the configuration field m.%s, which is nil when the user left it unset, and nothing on the path excludes that: LoadMast panics (reflect: New(nil)) instead of returning an error; reachable via %s",
							ir.FuncName(fn), fname, fmtChain(chain)), "chain: "+fmtChain(chain))
					continue
				}
				if _, isMI := tc.Call.Args[0].(*ssa.MakeInterface); isMI {
					c.OK(pos, what, "type of a concrete value", true)
					continue
				}
				// the example value is a parameter: every caller must pass a
				// concrete value or a configuration field that cannot be nil there
				if p, isP := ir.ResolveCell(tc.Call.Args[0]).(*ssa.Parameter); isP && p.Parent() == fn && len(tn.callers[fn]) > 0 {
					idx := paramIndex(p)
					all, bad := true, ""
					for _, ci := range tn.callers[fn] {
						args := ci.Common().Args
						if idx >= len(args) || ci.Parent() == fn {
							all = false
							break
						}
						if _, isMI := args[idx].(*ssa.MakeInterface); isMI {
							continue
						}
						fa := lmCfgField(args[idx])
						if fa == nil {
							all = false
							break
						}
						if lmReachableUnderNil(ci.Parent(), ir.Sym(fa), ci.Block()) {
							bad = fmt.Sprintf("%s passes m.%s at %s where it may be nil", ir.FuncName(ci.Parent()), ir.FieldName(fa.X.Type(), fa.Field), P.InstrPos(ci))
							break
						}
					}
					if bad != "" {
						c.Violation(fn, pos, "reflect.New(TypeOf(param "+fmt.Sprint(idx)+")) with a nil configuration value",
							fmt.Sprintf("%s calls reflect.New on the type of its argument, and %s: LoadMast panics (reflect: New(nil)) instead of returning an error; reachable via %s",
								ir.FuncName(fn), bad, fmtChain(chain)), "chain: "+fmtChain(chain))
						continue
					}
					if all {
						c.OK(pos, what, fmt.Sprintf("the example value is a parameter; each of the %d call sites passes a concrete value or a configuration field that cannot be nil there", len(tn.callers[fn])), false)
						continue
					}
				}
			}
			// the type itself is a parameter: judge every call site's argument
			if p, isP := t.(*ssa.Parameter); isP && p.Parent() == fn && len(tn.callers[fn]) > 0 {
				idx := paramIndex(p)
				okAll, reported := true, false
				for _, ci := range tn.callers[fn] {
					args := ci.Common().Args
					if idx >= len(args) || ci.Parent() == fn {
						okAll = false
						break
					}
					a := ir.ResolveCell(args[idx])
					caller := ci.Parent()
					tested := false
					for _, fc := range ir.FactsAt(ci.Block()) {
						tv, tnn, ok := ir.NilTest(fc.Cond)
						if ok && fc.Truth == tnn && (ir.ResolveCell(tv) == a || lmSameCellLoad(caller, ir.ResolveCell(tv), a)) {
							tested = true
						}
					}
					if tested {
						continue
					}
					ac, isCall := a.(*ssa.Call)
					if !isCall || !lmIsExt(ac, "reflect.TypeOf") || len(ac.Call.Args) != 1 {
						okAll = false
						break
					}
					if _, isMI := ac.Call.Args[0].(*ssa.MakeInterface); isMI {
						continue
					}
					fa := lmCfgField(ac.Call.Args[0])
					if fa == nil {
						okAll = false
						break
					}
					fname := ir.FieldName(fa.X.Type(), fa.Field)
					if lmReachableUnderNil(caller, ir.Sym(fa), ci.Block()) {
						reported = true
						c.Violation(caller, P.InstrPos(ci), fmt.Sprintf("reflect.New(TypeOf(m.%s)) without m.%s!=nil", fname, fname),
							fmt.Sprintf("%s passes the type of the configuration field m.%s, which is nil when the user left it unset, to %s, which calls reflect.New on it, and nothing on the path excludes that: LoadMast panics (reflect: New(nil)) instead of returning an error; reachable via %s",
								ir.FuncName(caller), fname, ir.FuncName(fn), fmtChain(chain)), "chain: "+fmtChain(chain))
					}
				}
				if reported {
					continue
				}
				if okAll {
					c.OK(pos, what, fmt.Sprintf("the type is a parameter; at each of the %d call sites it is tested against nil, the type of a concrete value, or the type of a configuration field that cannot be nil there", len(tn.callers[fn])), false)
					continue
				}
			}
			c.Undecided(fn, pos, "reflect.New of an untraced type", "reflect.New on the load path with a type that is neither tested against nil nor the type of a configuration field: whether it can be nil is not decided", "chain: "+fmtChain(chain))
		}
	}
}

// lmSameCellLoad: a and b are two loads of the same local cell or captured
// variable, which fn itself never writes (the test of one holds for the other).
func lmSameCellLoad(fn *ssa.Function, a, b ssa.Value) bool {
	ua, ok1 := a.(*ssa.UnOp)
	ub, ok2 := b.(*ssa.UnOp)
	if !ok1 || !ok2 || ua.Op != token.MUL || ub.Op != token.MUL || ua.X != ub.X {
		return false
	}
	switch ua.X.(type) {
	case *ssa.FreeVar, *ssa.Alloc:
	default:
		return false
	}
	for _, blk := range fn.Blocks {
		for _, ins := range blk.Instrs {
			if st, ok := ins.(*ssa.Store); ok && st.Addr == ua.X {
				if _, isFV := ua.X.(*ssa.FreeVar); isFV {
					return false
				}
				// the cell's single initialising store is fine; a second one is not
				if a2, ok := ua.X.(*ssa.Alloc); ok && ir.SingleStore(a2) == nil {
					return false
				}
			}
		}
	}
	return true
}

// ---- ROOTEXACT: the root check rejects no conforming root -----------------------

// lmOverRejects: does atom hold for a difference the clause does not list?
func lmOverRejects(clause int, a lmAtom) (bool, int64) {
	probes := []int64{0, 1, -1, 2, -2, 3, -3, 1000000, -1000000}
	for d := int64(-2); d <= 2; d++ {
		probes = append(probes, a.d+d)
	}
	for _, x := range probes {
		if !lmRequired(clause, x) && a.holds(x) {
			return true, x
		}
	}
	return false, 0
}

func lmOverText(clause int, x int64) string {
	switch clause {
	case 1:
		return "a node with as many values as keys"
	case 2, 5:
		return "a node with one link more than entries"
	case 3:
		return fmt.Sprintf("strictly ascending adjacent keys for which the comparator returns %d", x)
	case 4:
		if x == 0 {
			return "a key whose layer equals the recorded height"
		}
		return "a key whose layer is above the recorded height (legal: the height is capped by the size rule)"
	}
	return "a conforming node"
}

func runROOTEXACT(c *Ctx) {
	P := c.P
	lm := c.MustFunc("(*Root).LoadMast")
	if lm == nil {
		return
	}
	vals := lmValidators(c, lm)
	if len(vals) == 0 {
		c.AnchorMissing("root validator called from LoadMast")
		return
	}
	an := &lmAn{c: c, memo: map[lmKey]*lmVal{}, loops: map[lmKey]*lmLoop{}, near: map[int][]string{}, nearUnd: map[int][]string{}, nearPos: map[int]string{}}
	for _, v := range vals {
		mp := lpMastParam(v.fn)
		an.walk(&lmFrame{fn: v.fn, env: map[*ssa.Parameter]*lmVal{v.fn.Params[mp]: {k: lmMast}}})
	}
	cands := append([]*lmCand(nil), an.cands...)
	frames := append([]*lmFrame(nil), an.frs...)
	for _, cd := range an.cands {
		an.gate(cd)
	}
	for _, nc := range an.nodeCalls {
		l := an.loaderOf(nc)
		for _, cd := range l.cands {
			cands = append(cands, cd)
			dup := false
			for _, f := range frames {
				if f == cd.fr {
					dup = true
				}
			}
			if !dup {
				frames = append(frames, cd.fr)
			}
		}
	}
	// (1) every rejecting comparison over a clause's classes is no stronger than the clause
	matched := map[*ssa.If]bool{}
	for _, cd := range cands {
		matched[cd.iff] = true
		if cd.rej == lmBad {
			continue
		}
		name := lmClauseName[cd.clause]
		if cd.clause == 5 {
			name = "len(Link)≠len(Value)+1"
		}
		pos := P.InstrPos(cd.iff)
		what := fmt.Sprintf("rejecting branch `%s` in %s", cd.desc, ir.FuncName(cd.fr.fn))
		over, x := lmOverRejects(cd.clause, cd.atom)
		switch {
		case !over:
			c.OK(pos, what, "holds only for nodes that clause "+name+" lists", false)
		case cd.rej == lmUnd:
			c.Undecided(cd.fr.fn, pos, "stronger than clause "+name, fmt.Sprintf("`%s` holds for %s; whether the edge rejects is not decided: %s", cd.desc, lmOverText(cd.clause, x), cd.why))
		default:
			c.Violation(cd.fr.fn, pos, "stronger than clause "+name,
				fmt.Sprintf("the root check rejects when `%s`, which also holds for %s: a root that conforms to the configuration (one MakeRoot produced) is refused by LoadMast; the clause is exactly %s", cd.desc, lmOverText(cd.clause, x), name))
		}
	}
	// (1b) comparisons of an expanded predicate that belong to no clause
	loose := append([]lmLoose(nil), an.loose...)
	for _, nc := range an.nodeCalls {
		loose = append(loose, an.loaderOf(nc).loose...)
	}
	for _, lo := range loose {
		if k, _ := lpRejects(P, lo.iff.Block().Succs[lo.edge]); k == lpErrNil {
			continue
		}
		pos := P.InstrPos(lo.iff)
		text := fmt.Sprintf("%s %s %s", lo.t.A, lo.t.op, lo.t.B)
		if (lo.t.A.k == lmLen && lo.t.B.k == lmConst) || (lo.t.B.k == lmLen && lo.t.A.k == lmConst) {
			c.Violation(lo.fr.fn, pos, "rejects on "+text,
				fmt.Sprintf("the node check rejects when `%s` (through a predicate helper): a condition on the number of entries alone, which no listed rejection covers: a node the writer stored cannot be loaded", text))
		} else {
			c.Undecided(lo.fr.fn, pos, "rejecting branch `"+text+"`", "a comparison inside a predicate helper that the root check branches on matches no listed rejection; whether it refuses conforming roots is not decided")
		}
	}
	// (3) LoadMast's own body and its helpers
	lmCheckRegion(c, lm, vals)
	// (2) every other purely rejecting branch of the validator and of every
	// function on the load path is a listed rejection
	frameOf := map[*ssa.Function]*lmFrame{}
	var fnsAll []*ssa.Function
	addFn := func(fn *ssa.Function, fr *lmFrame) {
		if _, ok := frameOf[fn]; !ok {
			frameOf[fn] = fr
			fnsAll = append(fnsAll, fn)
		} else if frameOf[fn] == nil && fr != nil {
			frameOf[fn] = fr
		}
	}
	for _, fr := range frames {
		addFn(fr.fn, fr)
	}
	for _, nc := range an.nodeCalls {
		for _, fr := range an.loaderOf(nc).frs {
			addFn(fr.fn, fr)
		}
		if g := ir.Callee(nc.Call); g != nil {
			for _, fn := range lmStaticLoadPath(c, g) {
				addFn(fn, nil)
			}
		}
	}
	purelyRej := func(b *ssa.BasicBlock) bool {
		k, _ := lpRejects(P, b)
		if k != lpErrNonNil {
			return false
		}
		for x := range ir.ReachableFrom(b, nil) {
			if len(x.Instrs) > 0 {
				if _, ok := x.Instrs[len(x.Instrs)-1].(*ssa.Return); ok {
					return true
				}
			}
		}
		return false
	}
	for _, fn0 := range fnsAll {
		fr := frameOf[fn0]
		if fr == nil {
			fr = &lmFrame{fn: fn0, env: map[*ssa.Parameter]*lmVal{}}
		}
		if ir.ErrorResultIndex(fr.fn.Signature) < 0 {
			continue
		}
		for _, b := range fr.fn.Blocks {
			if len(b.Instrs) == 0 || len(b.Succs) != 2 || b.Succs[0] == b.Succs[1] {
				continue
			}
			iff, ok := b.Instrs[len(b.Instrs)-1].(*ssa.If)
			if !ok || matched[iff] {
				continue
			}
			if _, known := ir.ConstBool(iff.Cond); known {
				continue
			}
			p0, p1 := purelyRej(b.Succs[0]), purelyRej(b.Succs[1])
			if p0 == p1 {
				continue // not a branch one side of which only rejects
			}
			r0 := lpErrNil
			if p0 {
				r0 = lpErrNonNil
			}
			pos := P.InstrPos(iff)
			if tv, _, ok := ir.NilTest(iff.Cond); ok && ir.IsErrorType(tv.Type()) {
				c.OK(pos, "rejecting branch on an error value in "+ir.FuncName(fr.fn), "passes on the failure of "+lpDesc(tv, 0), true)
				continue
			}
			// a comparator test of one particular adjacent pair (Key[0], Key[1])
			if A, B, op, ok := an.rel(iff.Cond, fr); ok {
				if r0 != lpErrNonNil {
					op = lpNegOp(op)
				}
				if at, ok := lmPairOrder(A, B, op); ok {
					what := fmt.Sprintf("rejecting branch `%s %s %s` in %s", A, op, B, ir.FuncName(fr.fn))
					if over, x := lmOverRejects(3, at); over {
						c.Violation(fr.fn, pos, "stronger than clause "+lmClauseName[3],
							fmt.Sprintf("the node check rejects when `%s %s %s`, which also holds for %s: a conforming root is refused by LoadMast", A, op, B, lmOverText(3, x)))
					} else {
						c.OK(pos, what, "holds only for a descending or equal adjacent pair, which clause "+lmClauseName[3]+" lists", false)
					}
					continue
				}
			}
			rej := 0
			if !p0 {
				rej = 1
			}
			verdict, construct, why := lmJudgeDecoderBranch(P, iff, rej, purelyRej)
			switch verdict {
			case lmDecOK:
				c.OK(pos, fmt.Sprintf("rejecting branch `%s` in %s", construct, ir.FuncName(fr.fn)), why, false)
			case lmDecViolation:
				c.Violation(fr.fn, pos, construct, why)
			default:
				c.Undecided(fr.fn, pos, construct, why)
			}
		}
	}
}

// lmPairOrder: `A op B` compares keyOrder of two adjacent constant-index keys
// with a constant; returns the atom over keyOrder(previous, next).
func lmPairOrder(A, B *lmVal, op token.Token) (lmAtom, bool) {
	if B.k == lmCmp && A.k == lmConst {
		A, B = B, A
		op = lpFlipOp(op)
	}
	if A.k != lmCmp || B.k != lmConst || A.a == nil || A.b == nil {
		return lmAtom{}, false
	}
	a, b := A.a, A.b
	if a.k != lmElem || b.k != lmElem || !a.constIdx || !b.constIdx {
		return lmAtom{}, false
	}
	d := B.add - A.add
	switch {
	case b.off == a.off+1:
		return lmAtom{op, d}, true
	case a.off == b.off+1:
		return lmAtom{lpFlipOp(op), -d}, true
	}
	return lmAtom{}, false
}

// ---- ROOTEXACT: the rejections of LoadMast's own region ---------------------------
//
// Besides the validator and the decoding path, LoadMast itself (and the private
// helpers it calls that do not read nodes) may refuse a root. Every branch of
// that region whose taken edge reaches only error returns must be one of the
// justified rejections found in the tree today:
//   - the test of an error a callee returned (the validator, a helper);
//   - a comparison of Root.NodeFormat with the known formats (unknown format);
//   - a nil test of a configuration value (RemoteConfig field or the Mast field
//     copied from it), possibly together with a nil test of Root.Link.
// A rejection guarded by the numeric Root fields or the Mast fields derived
// from them (size, height, branch factor, thresholds) is not something the
// writer guarantees: MakeRoot records whatever the tree has.

const (
	lmOrgFormat = 1 << iota // Root.NodeFormat, Mast.nodeFormat
	lmOrgLink               // Root.Link, the Root pointer
	lmOrgConfig             // RemoteConfig and the Mast fields copied from it
	lmOrgNum                // Root.Size/Height/BranchFactor and derived Mast fields
	lmOrgErr                // an error a callee returned
	lmOrgUnknown
)

var lmMastNumFields = map[string]bool{"size": true, "height": true, "branchFactor": true, "growAfterSize": true, "shrinkBelowSize": true}
var lmRootNumFields = map[string]bool{"Size": true, "Height": true, "BranchFactor": true}

type lmRegion struct {
	c       *Ctx
	fns     map[*ssa.Function]bool
	callers map[*ssa.Function][]*ssa.Call
}

// origin classifies where the operands of v come from.
func (R *lmRegion) origin(root ssa.Value) int {
	seen := map[ssa.Value]bool{root: true}
	work := []ssa.Value{root}
	push := func(v ssa.Value) {
		if v != nil && !seen[v] {
			seen[v] = true
			work = append(work, v)
		}
	}
	out := 0
	for n := 0; len(work) > 0; n++ {
		if n > 3000 {
			return out | lmOrgUnknown
		}
		v := work[len(work)-1]
		work = work[:len(work)-1]
		if ir.IsErrorType(v.Type()) {
			switch v.(type) {
			case *ssa.Call, *ssa.Extract:
				out |= lmOrgErr
				continue
			}
		}
		switch x := v.(type) {
		case *ssa.Const, *ssa.Global, *ssa.Function, *ssa.Builtin:
		case *ssa.Parameter:
			fn := x.Parent()
			switch {
			case ir.IsPtrToNamed(x.Type(), "Root"):
				out |= lmOrgLink
			case ir.IsPtrToNamed(x.Type(), "RemoteConfig"):
				out |= lmOrgConfig
			case lpIsMastPtr(x.Type()):
				// the Mast under construction: its fields are classified where read
			case len(R.callers[fn]) > 0:
				idx := paramIndex(x)
				for _, cs := range R.callers[fn] {
					if idx < len(cs.Call.Args) {
						push(cs.Call.Args[idx])
					}
				}
			default:
				out |= lmOrgUnknown
			}
		case *ssa.Alloc:
			if x.Referrers() != nil {
				for _, r := range *x.Referrers() {
					if st, ok := r.(*ssa.Store); ok && st.Addr == ssa.Value(x) {
						push(st.Val)
					}
				}
			}
		case *ssa.UnOp:
			if x.Op != token.MUL {
				push(x.X)
				continue
			}
			switch a := x.X.(type) {
			case *ssa.FieldAddr:
				name := ir.FieldName(a.X.Type(), a.Field)
				switch {
				case ir.IsPtrToNamed(a.X.Type(), "Root"):
					switch {
					case name == "NodeFormat":
						out |= lmOrgFormat
					case name == "Link":
						out |= lmOrgLink
					case lmRootNumFields[name]:
						out |= lmOrgNum
					default:
						out |= lmOrgUnknown
					}
				case ir.IsPtrToNamed(a.X.Type(), "RemoteConfig"):
					out |= lmOrgConfig
				case lpIsMastPtr(a.X.Type()):
					switch {
					case lmMastNumFields[name]:
						out |= lmOrgNum
					case name == "nodeFormat":
						out |= lmOrgFormat
					case name == "root":
						out |= lmOrgLink
					default:
						out |= lmOrgConfig
					}
				default:
					push(a.X)
				}
			case *ssa.IndexAddr:
				push(a.X)
				push(a.Index)
			case *ssa.Global:
			default:
				push(x.X)
			}
		case *ssa.Call:
			for _, a := range x.Call.Args {
				push(a)
			}
			if !x.Call.IsInvoke() && ir.Callee(x.Call) == nil {
				if _, isB := x.Call.Value.(*ssa.Builtin); !isB {
					push(x.Call.Value)
				}
			}
			if x.Call.IsInvoke() {
				push(x.Call.Value)
			}
		case *ssa.Extract:
			push(x.Tuple)
		case *ssa.Phi:
			for _, e := range x.Edges {
				push(e)
			}
		default:
			if ins, ok := v.(ssa.Instruction); ok {
				for _, op := range ins.Operands(nil) {
					if op != nil && *op != nil {
						push(*op)
					}
				}
			} else {
				out |= lmOrgUnknown
			}
		}
	}
	return out
}

// lmCheckRegion examines the rejecting branches of LoadMast and of the helpers
// it calls that do not read nodes (the validator and the loaders are examined
// by the other parts of ROOTEXACT).
func lmCheckRegion(c *Ctx, lm *ssa.Function, vals []lmValidator) {
	P := c.P
	skip := map[*ssa.Function]bool{}
	for _, v := range vals {
		skip[v.fn] = true
	}
	R := &lmRegion{c: c, fns: map[*ssa.Function]bool{lm: true}, callers: map[*ssa.Function][]*ssa.Call{}}
	order := []*ssa.Function{lm}
	depth := map[*ssa.Function]int{lm: 0}
	for i := 0; i < len(order); i++ {
		fn := order[i]
		for _, ci := range CallsOf(fn) {
			call, ok := ci.(*ssa.Call)
			if !ok {
				continue
			}
			g := ir.Callee(call.Call)
			if g == nil || !isOwn(P, g) || g.Blocks == nil || skip[g] || c.Facts.MayLoad[g] || lmLoadLike(c, g) {
				continue
			}
			R.callers[g] = append(R.callers[g], call)
			if !R.fns[g] && depth[fn] < 3 {
				R.fns[g] = true
				depth[g] = depth[fn] + 1
				order = append(order, g)
			}
		}
	}
	purely := func(b *ssa.BasicBlock) bool {
		k, _ := lpRejects(P, b)
		if k != lpErrNonNil {
			return false
		}
		// at least one return must be reachable (a panic-only region is not a rejection)
		for x := range ir.ReachableFrom(b, nil) {
			if len(x.Instrs) > 0 {
				if _, ok := x.Instrs[len(x.Instrs)-1].(*ssa.Return); ok {
					return true
				}
			}
		}
		return false
	}
	for _, fn := range order {
		if ir.ErrorResultIndex(fn.Signature) < 0 {
			continue
		}
		for _, b := range fn.Blocks {
			if len(b.Instrs) == 0 || len(b.Succs) != 2 || b.Succs[0] == b.Succs[1] {
				continue
			}
			iff, ok := b.Instrs[len(b.Instrs)-1].(*ssa.If)
			if !ok {
				continue
			}
			if _, known := ir.ConstBool(iff.Cond); known {
				continue
			}
			p0, p1 := purely(b.Succs[0]), purely(b.Succs[1])
			if p0 == p1 {
				continue
			}
			pos := P.InstrPos(iff)
			condText := lpDescCond(iff.Cond, p0)
			what := fmt.Sprintf("rejection `%s` in %s", condText, ir.FuncName(fn))
			if tv, _, ok := ir.NilTest(iff.Cond); ok && ir.IsErrorType(tv.Type()) {
				c.OK(pos, what, "passes on the error of "+lpDesc(tv, 0), true)
				continue
			}
			// the conditions under which this rejection is taken: the branch
			// itself and the enclosing branches that are not rejections themselves
			org := R.origin(iff.Cond)
			for _, fc := range ir.FactsAt(b) {
				other := fc.From.Succs[0]
				if fc.Truth {
					other = fc.From.Succs[1]
				}
				if purely(other) {
					continue // an earlier rejection: judged on its own
				}
				if ir.CanReach(other, b) {
					continue // not a controlling branch (a loop's exit test): the other side gets here too
				}
				if tv, _, ok := ir.NilTest(fc.Cond); ok && ir.IsErrorType(tv.Type()) {
					continue
				}
				org |= R.origin(fc.Cond)
			}
			rcts := []lmCondT{{iff.Cond, p0}}
			for _, fc := range ir.FactsAt(b) {
				other := fc.From.Succs[0]
				if fc.Truth {
					other = fc.From.Succs[1]
				}
				if purely(other) || ir.CanReach(other, b) {
					continue
				}
				rcts = append(rcts, lmCondT{fc.Cond, fc.Truth})
			}
			if org&lmOrgNum == 0 {
				if v, construct, why, ok := lmCfgRejection(rcts, condText); ok && v != lmDecOK {
					if v == lmDecViolation {
						c.Violation(fn, pos, construct, why)
					} else {
						c.Undecided(fn, pos, construct, why)
					}
					continue
				}
			}
			switch {
			case org&lmOrgNum != 0:
				c.Violation(fn, pos, "rejects on "+condText,
					fmt.Sprintf("%s refuses a root when `%s`: a condition over the recorded size, height, branch factor or the thresholds derived from them, which the writer does not guarantee (MakeRoot records whatever the tree has) and C19 does not list: a root MakeRoot produced can fail to load", ir.FuncName(fn), condText))
			case org&lmOrgUnknown != 0:
				c.Undecided(fn, pos, "rejects on "+condText, "LoadMast's region rejects on a condition whose operands the rule cannot trace to the Root record or the configuration")
			default:
				var cls []string
				if org&lmOrgFormat != 0 {
					cls = append(cls, "the recorded node format")
				}
				if org&lmOrgConfig != 0 {
					cls = append(cls, "configuration values")
				}
				if org&lmOrgLink != 0 {
					cls = append(cls, "whether the root names a top node")
				}
				if org&lmOrgErr != 0 {
					cls = append(cls, "a callee's error")
				}
				if len(cls) == 0 {
					cls = append(cls, "constants")
				}
				c.OK(pos, what, "depends only on "+strings.Join(cls, ", ")+": a listed rejection (unknown format / unusable configuration)", false)
			}
		}
	}
}

// ---- DECODEGUARD: decoders neither skip the decoding nor refuse legal nodes -------
//
// (G1) "decoded nothing but said ok": in a decoder on the load path that fills
// the result node's Key/Value/Link element by element in a loop over a decoded
// list S, no return with a nil error is reachable without entering the loop
// body when S is non-empty.
// (G2) exact witness guard: where reflect.New(TypeOf(m.F)) is protected by a
// rejection for "the type witness m.F is unset", that rejection must not fire
// when the list the witness is needed for is empty: an error return reachable
// under {F nil, len(S)=0} must also be reachable under {F non-nil, len(S)=0}.
// Both are decided by valuation-pruned reachability (DESIGN §3.2).

// lmVal2 is a valuation: the configuration field at nilSym is nil / non-nil
// (nilKnown), and the list with symbolic path lenSym has lo ≤ len ≤ hi.
type lmValuation struct {
	nilSym   string
	nilKnown bool
	isNil    bool
	lenSym   string
	lo, hi   int64 // hi < 0: unbounded
	first    bool  // loop counters have their initial value (the loop body is being avoided)
}

func (V *lmValuation) lenCmp(op token.Token, t int64) (val, known bool) {
	// len op t for every len in [lo, hi]
	lo, hi := V.lo, V.hi
	inf := hi < 0
	switch op {
	case token.GTR:
		if lo > t {
			return true, true
		}
		if !inf && hi <= t {
			return false, true
		}
	case token.GEQ:
		if lo >= t {
			return true, true
		}
		if !inf && hi < t {
			return false, true
		}
	case token.LSS:
		if !inf && hi < t {
			return true, true
		}
		if lo >= t {
			return false, true
		}
	case token.LEQ:
		if !inf && hi <= t {
			return true, true
		}
		if lo > t {
			return false, true
		}
	case token.EQL:
		if !inf && lo == hi && lo == t {
			return true, true
		}
		if lo > t || (!inf && hi < t) {
			return false, true
		}
	case token.NEQ:
		if lo > t || (!inf && hi < t) {
			return true, true
		}
		if !inf && lo == hi && lo == t {
			return false, true
		}
	}
	return false, false
}

// eval evaluates a branch condition under the valuation.
func (V *lmValuation) eval(cond ssa.Value) (val, known bool) {
	if v, ok := ir.ConstBool(cond); ok {
		return v, true
	}
	neg := false
	for {
		u, ok := cond.(*ssa.UnOp)
		if !ok || u.Op != token.NOT {
			break
		}
		neg = !neg
		cond = u.X
	}
	fin := func(v, k bool) (bool, bool) {
		if neg {
			return !v, k
		}
		return v, k
	}
	if tv, tnn, ok := ir.NilTest(cond); ok {
		if V.nilKnown && lmNilVal(tv, V.nilSym) {
			return fin(V.isNil != tnn, true)
		}
		if V.lenSym != "" && V.lo >= 1 && ir.Sym(tv) == V.lenSym {
			return fin(tnn, true) // a non-empty list is not nil
		}
		return false, false
	}
	bin, ok := cond.(*ssa.BinOp)
	if !ok || lpNegOp(bin.Op) == token.ILLEGAL || V.lenSym == "" {
		return false, false
	}
	op := bin.Op
	x, y := bin.X, bin.Y
	// len(S)+off op const
	if _, isC := lmConstInt(x); isC {
		x, y = y, x
		op = lpFlipOp(op)
	}
	if s, off, isL := lmLenPlus(x); isL && s == V.lenSym {
		if n, isC := lmConstInt(y); isC {
			return fin(V.lenCmp(op, n-off))
		}
	}
	// counter+k < len(S)+off
	x, y, op = bin.X, bin.Y, bin.Op
	if op == token.GTR {
		x, y, op = y, x, token.LSS
	}
	if op == token.LSS {
		if c0, k, okc := lmCounterMin(x); okc {
			if s, off, isL := lmLenPlus(y); isL && s == V.lenSym {
				if V.hi >= 0 && c0+k >= V.hi+off {
					return fin(false, true) // the loop is never entered
				}
				if V.first && c0+k < V.lo+off {
					return fin(true, true) // first test of the loop: entered
				}
			}
		}
	}
	return false, false
}

// reach: blocks reachable from the entry under the valuation, never entering avoid.
func (V *lmValuation) reach(fn *ssa.Function, avoid *ssa.BasicBlock) map[*ssa.BasicBlock]bool {
	return ir.ReachableFrom(fn.Blocks[0], func(a, b *ssa.BasicBlock) bool {
		if b == avoid {
			return true
		}
		if len(a.Instrs) == 0 || len(a.Succs) != 2 || a.Succs[0] == a.Succs[1] {
			return false
		}
		iff, ok := a.Instrs[len(a.Instrs)-1].(*ssa.If)
		if !ok {
			return false
		}
		v, known := V.eval(iff.Cond)
		if !known {
			return false
		}
		if v {
			return b == a.Succs[1]
		}
		return b == a.Succs[0]
	})
}

// lmElemLoop is a loop `for counter+k < len(S)+off` whose body stores into
// elements of a node's Key/Value/Link.
type lmElemLoop struct {
	hdr    *ssa.BasicBlock
	body   *ssa.BasicBlock
	blocks map[*ssa.BasicBlock]bool
	lenSym string
	fields []string
}

func lmElemLoops(fn *ssa.Function) []*lmElemLoop {
	var out []*lmElemLoop
	for _, p := range fn.Blocks {
		if len(p.Instrs) == 0 || len(p.Succs) != 2 {
			continue
		}
		iff, ok := p.Instrs[len(p.Instrs)-1].(*ssa.If)
		if !ok {
			continue
		}
		bin, ok := iff.Cond.(*ssa.BinOp)
		if !ok {
			continue
		}
		x, y, op := bin.X, bin.Y, bin.Op
		if op == token.GTR {
			x, y, op = y, x, token.LSS
		}
		if op != token.LSS {
			continue
		}
		if _, _, okc := lmCounterMin(x); !okc {
			continue
		}
		s, _, isL := lmLenPlus(y)
		if !isL {
			continue
		}
		body := p.Succs[0]
		blocks := map[*ssa.BasicBlock]bool{}
		for _, b := range fn.Blocks {
			if p.Dominates(b) && ir.CanReach(b, p) {
				blocks[b] = true
			}
		}
		if !blocks[body] {
			continue
		}
		seen := map[string]bool{}
		var fields []string
		for b := range blocks {
			for _, ins := range b.Instrs {
				st, ok := ins.(*ssa.Store)
				if !ok {
					continue
				}
				ia, ok := st.Addr.(*ssa.IndexAddr)
				if !ok {
					continue
				}
				if f, _, _, isL := lmNodeList(ia.X); isL && !seen[f] {
					seen[f] = true
					fields = append(fields, f)
				}
			}
		}
		if len(fields) == 0 {
			continue
		}
		sort.Strings(fields)
		out = append(out, &lmElemLoop{hdr: p, body: body, blocks: blocks, lenSym: s, fields: fields})
	}
	return out
}

func lmLenName(sym string) string {
	if i := strings.LastIndex(sym, "."); i >= 0 {
		return sym[i+1:]
	}
	return "list"
}

func init() {
	Register(&Rule{
		ID:    "DECODEGUARD",
		Props: []string{"C05", "C19"},
		Min:   2,
		Doc: "node decoders on the load path that fill the node's lists element by element: (G1) when the decoded list is non-empty, no return with a nil " +
			"error is reachable without entering the loop that fills the elements (a decoder must not report success without decoding); (G2) a rejection " +
			"that depends on a type witness (configuration field) being unset must not fire when the list the witness is needed for is empty — every error " +
			"return reachable under {witness nil, list empty} is also reachable under {witness set, list empty}.",
		Run: runDECODEGUARD,
	})
}

func runDECODEGUARD(c *Ctx) {
	P := c.P
	lm := c.MustFunc("(*Root).LoadMast")
	if lm == nil {
		return
	}
	pr := newLpPrune(c)
	res := newLpResolver(c)
	reach := map[*ssa.Function]bool{lm: true}
	q := []*ssa.Function{lm}
	var fns []*ssa.Function
	for len(q) > 0 {
		fn := q[0]
		q = q[1:]
		fns = append(fns, fn)
		f := pr.of(fn)
		for _, b := range fn.Blocks {
			if !f.live[b] {
				continue
			}
			for _, ins := range b.Instrs {
				var next []*ssa.Function
				switch x := ins.(type) {
				case ssa.CallInstruction:
					next = append(next, res.Callees(x)...)
				case *ssa.MakeClosure:
					if g, ok := x.Fn.(*ssa.Function); ok {
						next = append(next, g)
					}
				}
				for _, g := range next {
					if !reach[g] && g.Blocks != nil {
						reach[g] = true
						q = append(q, g)
					}
				}
			}
		}
	}
	sort.Slice(fns, func(i, j int) bool { return ir.PosLess(fns[i].Pos(), fns[j].Pos()) })
	errRets := func(fn *ssa.Function, blocks map[*ssa.BasicBlock]bool, want int) []*ssa.Return {
		ei := ir.ErrorResultIndex(fn.Signature)
		var out []*ssa.Return
		for _, r := range ir.Returns(fn) {
			if !blocks[r.Block()] || ei >= len(r.Results) {
				continue
			}
			k := lpErrClass(r.Results[ei], r.Block(), 0)
			if (want == lpErrNonNil) == (k == lpErrNonNil) {
				out = append(out, r)
			}
		}
		return out
	}
	for _, fn := range fns {
		if ir.ErrorResultIndex(fn.Signature) < 0 {
			continue
		}
		loops := lmElemLoops(fn)
		for _, L := range loops {
			name := lmLenName(L.lenSym)
			pos := P.InstrPos(L.hdr.Instrs[len(L.hdr.Instrs)-1])
			// (G1)
			V := &lmValuation{lenSym: L.lenSym, lo: 1, hi: -1, first: true}
			blocks := V.reach(fn, L.body)
			what := fmt.Sprintf("decoder %s fills %s from %s", ir.FuncName(fn), strings.Join(L.fields, ","), name)
			bad := errRets(fn, blocks, lpErrNil)
			if len(bad) == 0 {
				c.OK(pos, what, "with a non-empty "+name+" no success return is reachable without entering the element loop", false)
			} else {
				c.Violation(fn, P.InstrPos(bad[0]), "success return without decoding "+strings.Join(L.fields, ","),
					fmt.Sprintf("%s can return a nil error at %s although the decoded %s list is non-empty and the loop that fills %s of the node was never entered: the decoder reports success without decoding, and a stored node silently reads back as a different (empty-entried) node",
						ir.FuncName(fn), P.InstrPos(bad[0]), name, strings.Join(L.fields, ",")))
			}
			// (G2) for every configuration field the loop needs
			seenF := map[string]bool{}
			var lbs []*ssa.BasicBlock
			for b := range L.blocks {
				lbs = append(lbs, b)
			}
			sort.Slice(lbs, func(i, j int) bool { return lbs[i].Index < lbs[j].Index })
			for _, b := range lbs {
				for _, ins := range b.Instrs {
					u, ok := ins.(*ssa.UnOp)
					if !ok || u.Op != token.MUL {
						continue
					}
					fa, ok := u.X.(*ssa.FieldAddr)
					if !ok || !lpIsMastPtr(fa.X.Type()) || !types.IsInterface(u.Type()) {
						continue
					}
					sym := ir.Sym(fa)
					if seenF[sym] {
						continue
					}
					seenF[sym] = true
					fname := ir.FieldName(fa.X.Type(), fa.Field)
					// only fields the function tests against nil
					tested := false
					for _, bb := range fn.Blocks {
						if len(bb.Instrs) == 0 {
							continue
						}
						if iff, ok := bb.Instrs[len(bb.Instrs)-1].(*ssa.If); ok {
							if tv, _, ok := ir.NilTest(iff.Cond); ok && lmNilVal(tv, sym) {
								tested = true
							}
						}
					}
					if !tested {
						continue
					}
					Va := &lmValuation{nilSym: sym, nilKnown: true, isNil: true, lenSym: L.lenSym, lo: 0, hi: 0}
					Vb := &lmValuation{nilSym: sym, nilKnown: true, isNil: false, lenSym: L.lenSym, lo: 0, hi: 0}
					ra := errRets(fn, Va.reach(fn, nil), lpErrNonNil)
					rbm := map[*ssa.Return]bool{}
					for _, r := range errRets(fn, Vb.reach(fn, nil), lpErrNonNil) {
						rbm[r] = true
					}
					what := fmt.Sprintf("rejections of %s that depend on m.%s being unset (needed for %s)", ir.FuncName(fn), fname, name)
					var extra *ssa.Return
					for _, r := range ra {
						if !rbm[r] {
							extra = r
						}
					}
					if extra == nil {
						c.OK(pos, what, "none fires for an empty "+name, false)
					} else {
						c.Violation(fn, P.InstrPos(extra), fmt.Sprintf("rejects an empty %s when m.%s is unset", name, fname),
							fmt.Sprintf("%s returns the error at %s when m.%s is nil even though the %s list is empty, i.e. no element needs the type witness: a legal node without entries (the empty node) cannot be loaded when the configuration leaves the witness unset",
								ir.FuncName(fn), P.InstrPos(extra), fname, name))
					}
				}
			}
		}
	}
}

// isRootLoad: call loads the node named by the validated Mast's root field —
// the load primitive applied to (Mast, load of Mast.root), or a private helper
// on that Mast whose every return hands back the results of such a call.
func (an *lmAn) isRootLoad(call *ssa.Call, fr *lmFrame, depth int) bool {
	g := ir.Callee(call.Call)
	if g == nil || !lmLoadLike(an.c, g) {
		return false
	}
	hasM, hasR := false, false
	env := map[*ssa.Parameter]*lmVal{}
	for i, a := range call.Call.Args {
		switch an.cl(a, fr).k {
		case lmMast:
			hasM = true
			if i < len(g.Params) {
				env[g.Params[i]] = &lmVal{k: lmMast}
			}
		case lmRootLink:
			hasR = true
		}
	}
	if hasM && hasR {
		return true
	}
	if !hasM || depth >= 2 || g.Blocks == nil {
		return false
	}
	sub := &lmFrame{fn: g, env: env, parent: fr, site: call, depth: fr.depth + 1}
	rets := ir.Returns(g)
	if len(rets) == 0 {
		return false
	}
	for _, r := range rets {
		if len(r.Results) != 2 {
			return false
		}
		e0, ok0 := r.Results[0].(*ssa.Extract)
		e1, ok1 := r.Results[1].(*ssa.Extract)
		if !ok0 || !ok1 || e0.Tuple != e1.Tuple || e0.Index != 0 || e1.Index != 1 {
			return false
		}
		inner, ok := e0.Tuple.(*ssa.Call)
		if !ok || !an.isRootLoad(inner, sub, depth+1) {
			return false
		}
	}
	return true
}

// ---- ROOTEXACT: rejections of the decoders on the load path ------------------------
//
// Every function the load primitive reaches by static calls (loadPersisted, the
// format dispatcher, the v1 and binary decoders, the node check) may refuse a
// stored node only for a listed reason: a callee's error; a failed type
// assertion; an unusable configuration (a nil-tested configuration field,
// alone or as the type-witness guard whose exactness DECODEGUARD decides); an
// unknown node format; a count mismatch between two of the node's three lists
// (exactly ≠, whether the lists are the node's or the decoded intermediate's);
// byte-level malformedness (a guard over buffer lengths and decoded integers
// only: CODECSYM / DECODEBOUNDS own those). A rejection on the number of keys,
// values or links alone is a violation; anything else over node data is
// undecided.

// lmListLen: v is len(X.F)+off with F one of Key/Value/Link; returns the
// symbolic path of X and F.
func lmListLen(v ssa.Value) (base, field string, off int64, ok bool) {
	v = ir.ResolveCell(v)
	if b, isB := v.(*ssa.BinOp); isB && (b.Op == token.ADD || b.Op == token.SUB) {
		if n, isC := lmConstInt(b.Y); isC {
			if bs, f, o, ok := lmListLen(b.X); ok {
				if b.Op == token.SUB {
					n = -n
				}
				return bs, f, o + n, true
			}
		}
		return "", "", 0, false
	}
	call, isC := v.(*ssa.Call)
	if !isC {
		return "", "", 0, false
	}
	if bi, isB := call.Call.Value.(*ssa.Builtin); !isB || bi.Name() != "len" || len(call.Call.Args) != 1 {
		return "", "", 0, false
	}
	u, isU := ir.ResolveCell(call.Call.Args[0]).(*ssa.UnOp)
	if !isU || u.Op != token.MUL {
		return "", "", 0, false
	}
	fa, isF := u.X.(*ssa.FieldAddr)
	if !isF {
		return "", "", 0, false
	}
	f := ir.FieldName(fa.X.Type(), fa.Field)
	if f != "Key" && f != "Value" && f != "Link" {
		return "", "", 0, false
	}
	return ir.Sym(fa.X), f, off, true
}

// lmBytesOnly: every operand of v is a constant, the length of a byte slice or
// string, a decoded integer (result of encoding/binary, an int cell a decode
// helper fills), an int or []byte parameter.
func lmBytesOnly(v ssa.Value) bool {
	seen := map[ssa.Value]bool{}
	var ok func(v ssa.Value, d int) bool
	isBytes := func(t types.Type) bool {
		switch u := t.Underlying().(type) {
		case *types.Slice:
			b, isB := u.Elem().Underlying().(*types.Basic)
			return isB && b.Kind() == types.Uint8
		case *types.Basic:
			return u.Info()&types.IsString != 0
		case *types.Pointer:
			if s, isS := u.Elem().Underlying().(*types.Slice); isS {
				b, isB := s.Elem().Underlying().(*types.Basic)
				return isB && b.Kind() == types.Uint8
			}
		}
		return false
	}
	// ownRes: result #idx of a static call of a function of the repository is an integer or bytes computed, on
	// every return, from the callee's own integer / byte parameters only, and every argument is bytes-only
	ownRes := func(call *ssa.Call, idx int, d int) bool {
		g := ir.Callee(call.Call)
		if !fxOwnFunc(g) || call.Call.IsInvoke() || d > 8 {
			return false
		}
		res := g.Signature.Results()
		if idx >= res.Len() || !(lmIsInt(res.At(idx).Type()) || isBytes(res.At(idx).Type())) {
			return false
		}
		for _, a := range call.Call.Args {
			if !ok(a, d+1) {
				return false
			}
		}
		rets := ir.Returns(g)
		for _, r := range rets {
			if idx >= len(r.Results) || !ok(r.Results[idx], d+1) {
				return false
			}
		}
		return len(rets) > 0
	}
	ok = func(v ssa.Value, d int) bool {
		if seen[v] || d > 12 {
			return true
		}
		seen[v] = true
		switch x := v.(type) {
		case *ssa.Const:
			return true
		case *ssa.Parameter:
			return lmIsInt(x.Type()) || isBytes(x.Type())
		case *ssa.Alloc:
			p, _ := x.Type().Underlying().(*types.Pointer)
			return p != nil && (lmIsInt(p.Elem()) || isBytes(p.Elem()))
		case *ssa.Call:
			if bi, isB := x.Call.Value.(*ssa.Builtin); isB && (bi.Name() == "len" || bi.Name() == "cap") && len(x.Call.Args) == 1 {
				return isBytes(x.Call.Args[0].Type())
			}
			if sc := ir.Callee(x.Call); sc != nil && sc.Pkg != nil && sc.Pkg.Pkg.Path() == "encoding/binary" {
				return true
			}
			if x.Call.Signature().Results().Len() == 1 {
				return ownRes(x, 0, d)
			}
			return false
		case *ssa.Extract:
			// a result of a decoding helper of the repository (n, rest, err := decodeLength(buf)): bytes-only when
			// the helper is handed bytes and integers only and computes that result from them alone
			if call, isC := x.Tuple.(*ssa.Call); isC && fxOwnFunc(ir.Callee(call.Call)) {
				return ownRes(call, x.Index, d)
			}
			return ok(x.Tuple, d+1)
		case *ssa.UnOp:
			return ok(x.X, d+1)
		case *ssa.BinOp:
			return ok(x.X, d+1) && ok(x.Y, d+1)
		case *ssa.Convert:
			return ok(x.X, d+1)
		case *ssa.Phi:
			for _, e := range x.Edges {
				if !ok(e, d+1) {
					return false
				}
			}
			return true
		case *ssa.Slice:
			return isBytes(x.Type())
		case *ssa.IndexAddr:
			return isBytes(x.X.Type()) // a byte of the buffer
		}
		return false
	}
	return ok(v, 0)
}

const (
	lmDecOK = iota
	lmDecViolation
	lmDecUndecided
)

// lmIsCfgNilTest: cond is a nil test of a Mast configuration field (or of the
// reflect type of one).
func lmIsCfgNilTest(cond ssa.Value) bool {
	tv, _, ok := ir.NilTest(cond)
	if !ok {
		return false
	}
	if lmCfgField(tv) != nil {
		return true
	}
	if call, isC := ir.ResolveCell(tv).(*ssa.Call); isC && lmIsExt(call, "reflect.TypeOf") && len(call.Call.Args) == 1 {
		return lmCfgField(call.Call.Args[0]) != nil
	}
	return false
}

// lmJudgeDecoderBranch classifies the rejecting branch iff (rejecting successor
// rej) of a decoder.
func lmJudgeDecoderBranch(P *ir.Program, iff *ssa.If, rej int, purely func(*ssa.BasicBlock) bool) (int, string, string) {
	b := iff.Block()
	cond := iff.Cond
	truth := rej == 0
	text := lpDescCond(cond, truth)
	// the conditions that control the rejection
	conds := []ssa.Value{cond}
	cts := []lmCondT{{cond, truth}}
	for _, fc := range ir.FactsAt(b) {
		other := fc.From.Succs[0]
		if fc.Truth {
			other = fc.From.Succs[1]
		}
		if purely(other) || ir.CanReach(other, b) {
			continue
		}
		conds = append(conds, fc.Cond)
		cts = append(cts, lmCondT{fc.Cond, fc.Truth})
	}
	if v, construct, why, ok := lmCfgRejection(cts, text); ok {
		return v, construct, why
	}
	for {
		u, ok := cond.(*ssa.UnOp)
		if !ok || u.Op != token.NOT {
			break
		}
		truth = !truth
		cond = u.X
	}
	// a nil link handed to the load primitive: not a link, like the default of its type switch
	if tv, _, ok := ir.NilTest(cond); ok {
		if p, isP := ir.ResolveCell(tv).(*ssa.Parameter); isP && types.IsInterface(p.Type()) && !ir.IsErrorType(p.Type()) {
			return lmDecOK, text, "the value handed in is not a link (nil)"
		}
	}
	// a failed type assertion
	if ex, ok := cond.(*ssa.Extract); ok {
		if ta, ok := ex.Tuple.(*ssa.TypeAssert); ok && ta.CommaOk && ex.Index == 1 {
			if lmIsLinkElem(ta.X) {
				excluded := false
				for _, fc := range ir.FactsAt(b) {
					if tv, tnn, ok := ir.NilTest(fc.Cond); ok && ir.ResolveCell(tv) == ir.ResolveCell(ta.X) && fc.Truth == tnn {
						excluded = true
					}
				}
				if !excluded {
					return lmDecViolation, "rejects a nil link: " + text,
						fmt.Sprintf("the decoder rejects an element of the decoded Link list when `%s` without having excluded nil first: nil is a legal link (an absent child), so every node with an absent child is refused", text)
				}
			}
			return lmDecOK, text, "a failed type assertion of a decoded value"
		}
	}
	bin, ok := cond.(*ssa.BinOp)
	if ok && lpNegOp(bin.Op) != token.ILLEGAL {
		op := bin.Op
		if !truth {
			op = lpNegOp(op)
		}
		bx, fx, ox, lx := lmListLen(bin.X)
		by, fy, oy, ly := lmListLen(bin.Y)
		if lx && ly && bx == by {
			// count mismatch between two lists of one node
			clause, at := 0, lmAtom{}
			switch {
			case fx == "Key" && fy == "Value":
				clause, at = 1, lmAtom{op, oy - ox}
			case fx == "Value" && fy == "Key":
				clause, at = 1, lmAtom{lpFlipOp(op), ox - oy}
			case fx == "Link" && fy == "Key":
				clause, at = 2, lmAtom{op, oy - ox}
			case fx == "Key" && fy == "Link":
				clause, at = 2, lmAtom{lpFlipOp(op), ox - oy}
			case fx == "Link" && fy == "Value":
				clause, at = 5, lmAtom{op, oy - ox}
			case fx == "Value" && fy == "Link":
				clause, at = 5, lmAtom{lpFlipOp(op), ox - oy}
			}
			if clause != 0 {
				if over, x := lmOverRejects(clause, at); over {
					return lmDecViolation, "stronger than a count clause: " + text,
						fmt.Sprintf("the decoder rejects when `%s`, which also holds for %s: a conforming stored node cannot be loaded", text, lmOverText(clause, x))
				}
				return lmDecOK, text, "a count mismatch between two lists of the node, exactly ≠"
			}
		}
		isCx := !lx && !lmTouchesNode(bin.X)
		isCy := !ly && !lmTouchesNode(bin.Y)
		if (lx && isCy) || (ly && isCx) {
			f := fx
			if ly {
				f = fy
			}
			return lmDecViolation, "rejects on " + text,
				fmt.Sprintf("the decoder refuses a stored node when `%s`: a condition on the number of %s entries alone, which no listed rejection covers (key-less pass-through nodes and nodes of any width are legal): a node the writer stored cannot be loaded", text, f)
		}
		if _, isNil := bin.Y.(*ssa.Const); isNil || true {
			// format comparison: m.nodeFormat against the known formats
			for _, side := range []ssa.Value{bin.X, bin.Y} {
				if u, ok := ir.ResolveCell(side).(*ssa.UnOp); ok && u.Op == token.MUL {
					if fa, ok := u.X.(*ssa.FieldAddr); ok && lpIsMastPtr(fa.X.Type()) && ir.FieldName(fa.X.Type(), fa.Field) == "nodeFormat" {
						return lmDecOK, text, "the recorded node format is not a known one"
					}
				}
			}
		}
		if up, ok := lmWholeSizeBound(bin, op); ok && up {
			return lmDecViolation, "bounds the size of a stored node: " + text,
				fmt.Sprintf("the load path rejects when `%s`: an upper bound on the length of the whole byte slice of a stored node, which the writer does not enforce: a node that was written cannot be read back", text)
		}
		if lmBytesOnly(bin.X) && lmBytesOnly(bin.Y) {
			return lmDecOK, text, "byte-level malformedness (buffer lengths and decoded integers only): CODECSYM / DECODEBOUNDS"
		}
	}
	// the classification result of a private helper over the link's dynamic type
	if v, c, w, ok := lmClassifierGuard(iff, rej, conds); ok {
		return v, c, w
	}
	// the exit of a lookup loop over a table of formats, reached when no entry matched
	if lmFormatLookupMiss(iff, rej) {
		return lmDecOK, text, "no entry of the format table matched m.nodeFormat: the recorded node format is not a known one"
	}
	return lmDecUndecided, "rejecting branch `" + text + "`",
		"the load path rejects a stored node on a condition that is none of the listed rejections (callee error, failed type assertion, unusable configuration, unknown format, count mismatch between two lists, byte-level malformedness); whether it refuses nodes the writer stored is not decided"
}

// lmStaticLoadPath: the functions reached from fn by static calls (closures
// called directly included), never through callbacks.
func lmStaticLoadPath(c *Ctx, from *ssa.Function) []*ssa.Function {
	seen := map[*ssa.Function]bool{from: true}
	order := []*ssa.Function{from}
	for i := 0; i < len(order); i++ {
		for _, ci := range CallsOf(order[i]) {
			g := ir.Callee(*ci.Common())
			if g == nil || !isOwn(c.P, g) || g.Blocks == nil || seen[g] {
				continue
			}
			seen[g] = true
			order = append(order, g)
		}
	}
	return order
}

// lmCheckListRepairs (ROOTCLAUSES): between decoding and the node check the
// load path must not repair a node's lists, or a count mismatch disappears
// before it can be rejected. A store to Key/Value/Link of a node in a function
// the load primitive reaches statically may only materialise an absent list
// (a made slice, unreachable when the list already has elements); extending a
// list with append, or replacing a non-empty one, is a violation.
func lmCheckListRepairs(c *Ctx, an *lmAn) {
	P := c.P
	seen := map[*ssa.Function]bool{}
	for _, nc := range an.nodeCalls {
		g := ir.Callee(nc.Call)
		if g == nil {
			continue
		}
		for _, fn := range lmStaticLoadPath(c, g) {
			if seen[fn] {
				continue
			}
			seen[fn] = true
			for _, b := range fn.Blocks {
				for _, ins := range b.Instrs {
					st, ok := ins.(*ssa.Store)
					if !ok {
						continue
					}
					fa, ok := st.Addr.(*ssa.FieldAddr)
					if !ok || !ir.IsPtrToNamed(fa.X.Type(), "Node") {
						continue
					}
					f := ir.FieldName(fa.X.Type(), fa.Field)
					if f != "Key" && f != "Value" && f != "Link" {
						continue
					}
					// a composite literal under construction is not a decoded node
					var root ssa.Value = fa.X
					for {
						if in, ok := root.(*ssa.FieldAddr); ok {
							root = in.X
							continue
						}
						break
					}
					if a, isA := root.(*ssa.Alloc); isA && (a.Comment == "complit" || strings.HasPrefix(a.Comment, "complit")) {
						continue
					}
					// only a node that was decoded into before: a decoder that
					// builds the node's lists from an intermediate constructs, not repairs
					decodedInto := false
					for _, ci := range CallsOf(fn) {
						if !ir.Before(ci, st) {
							continue
						}
						for _, a := range ci.Common().Args {
							av := ir.Strip(a)
							for i := 0; i < 4; i++ {
								if in, ok := av.(*ssa.FieldAddr); ok {
									av = in.X
									continue
								}
								break
							}
							if av == root {
								decodedInto = true
							}
						}
					}
					if !decodedInto {
						continue
					}
					pos := P.InstrPos(st)
					what := fmt.Sprintf("store to %s of a node in %s", f, ir.FuncName(fn))
					construct := "repairs " + f + " of a decoded node"
					if call, isC := st.Val.(*ssa.Call); isC {
						if bi, isB := call.Call.Value.(*ssa.Builtin); isB && bi.Name() == "append" {
							c.Violation(fn, pos, construct, fmt.Sprintf("%s extends the %s list of a node on the load path with append: a stored node with too few %s entries is padded instead of being rejected for its mismatched counts", ir.FuncName(fn), f, f))
							continue
						}
					}
					if !lmFreshSlice(st.Val, 0) {
						c.Undecided(fn, pos, construct, fmt.Sprintf("%s replaces the %s list of a node on the load path by a value the rule does not classify", ir.FuncName(fn), f))
						continue
					}
					V := &lmValuation{lenSym: "*" + ir.Sym(fa), lo: 1, hi: -1}
					if V.reach(fn, nil)[b] {
						c.Violation(fn, pos, construct, fmt.Sprintf("%s replaces the %s list of a node on the load path although it may already hold entries: decoded data is overwritten before the count check", ir.FuncName(fn), f))
					} else {
						c.OK(pos, what, "only an absent (empty) list is materialised; a list with entries reaches the count check unchanged", false)
					}
				}
			}
		}
	}
}

// lmTouchesNode: does v depend on the lists of a node (or of a decoded
// intermediate with Key/Value/Link fields)?
func lmTouchesNode(v ssa.Value) bool {
	seen := map[ssa.Value]bool{}
	var walk func(v ssa.Value, d int) bool
	walk = func(v ssa.Value, d int) bool {
		if v == nil || seen[v] || d > 12 {
			return false
		}
		seen[v] = true
		if fa, ok := v.(*ssa.FieldAddr); ok {
			switch ir.FieldName(fa.X.Type(), fa.Field) {
			case "Key", "Value", "Link":
				return true
			}
		}
		if ins, ok := v.(ssa.Instruction); ok {
			for _, op := range ins.Operands(nil) {
				if op != nil && *op != nil && walk(*op, d+1) {
					return true
				}
			}
		}
		return false
	}
	return walk(v, 0)
}

// lmFreshSlice: v is a newly made slice, directly or as the result of a
// package function all of whose returns are newly made slices.
func lmFreshSlice(v ssa.Value, d int) bool {
	switch x := v.(type) {
	case *ssa.MakeSlice:
		return true
	case *ssa.Call:
		g := ir.Callee(x.Call)
		if g == nil || g.Blocks == nil || d > 2 {
			return false
		}
		rets := ir.Returns(g)
		if len(rets) == 0 {
			return false
		}
		for _, r := range rets {
			if len(r.Results) != 1 || !lmFreshSlice(r.Results[0], d+1) {
				return false
			}
		}
		return true
	}
	return false
}

// ---- pure predicates ---------------------------------------------------------------

// lmBool is a boolean expression over classified comparisons.
type lmBool struct {
	kind string // atom and or not
	kids []*lmBool
	A, B *lmVal
	op   token.Token
}

type lmTriple struct {
	A, B *lmVal
	op   token.Token
}

// boolExpr builds the boolean expression of v: comparisons, !, the phi forms
// go/ssa gives && and ||, and calls of private functions with a single bool
// result whose single return is such an expression over their parameters
// (the arguments are substituted through the frame environment).
func (an *lmAn) boolExpr(v ssa.Value, fr *lmFrame, depth int) *lmBool {
	if depth > 6 {
		return nil
	}
	switch x := v.(type) {
	case *ssa.UnOp:
		if x.Op == token.NOT {
			if k := an.boolExpr(x.X, fr, depth+1); k != nil {
				return &lmBool{kind: "not", kids: []*lmBool{k}}
			}
		}
	case *ssa.BinOp:
		if lpNegOp(x.Op) != token.ILLEGAL {
			return &lmBool{kind: "atom", A: an.cl(x.X, fr), B: an.cl(x.Y, fr), op: x.Op}
		}
	case *ssa.Call:
		g := ir.Callee(x.Call)
		if g == nil || !isOwn(an.c.P, g) || g.Blocks == nil || lmOnStack(fr, g) || fr.depth >= 3 {
			return nil
		}
		res := g.Signature.Results()
		if res.Len() != 1 || !types.Identical(res.At(0).Type().Underlying(), types.Typ[types.Bool]) {
			return nil
		}
		rets := ir.Returns(g)
		if len(rets) != 1 {
			return nil
		}
		// pure: no calls other than len/cap, no stores
		for _, b := range g.Blocks {
			for _, ins := range b.Instrs {
				switch y := ins.(type) {
				case *ssa.Store, *ssa.Go, *ssa.Defer, *ssa.Panic:
					return nil
				case *ssa.Call:
					if _, isB := y.Call.Value.(*ssa.Builtin); !isB {
						return nil
					}
				}
			}
		}
		env := map[*ssa.Parameter]*lmVal{}
		for i, a := range x.Call.Args {
			if i < len(g.Params) {
				if c := an.cl(a, fr); c.k != lmUnknown {
					env[g.Params[i]] = c
				}
			}
		}
		sub := &lmFrame{fn: g, env: env, parent: fr, site: x, depth: fr.depth + 1}
		return an.boolExpr(rets[0].Results[0], sub, depth+1)
	case *ssa.Phi:
		if x.Comment != "&&" && x.Comment != "||" {
			return nil
		}
		isAnd := x.Comment == "&&"
		out := &lmBool{kind: "or"}
		if isAnd {
			out.kind = "and"
		}
		blk := x.Block()
		for i, e := range x.Edges {
			pred := blk.Preds[i]
			if cv, isC := ir.ConstBool(e); isC && cv == !isAnd {
				// short-circuit edge: the term is the pred's branch condition
				if len(pred.Instrs) == 0 || len(pred.Succs) != 2 {
					return nil
				}
				iff, ok := pred.Instrs[len(pred.Instrs)-1].(*ssa.If)
				if !ok {
					return nil
				}
				t := an.boolExpr(iff.Cond, fr, depth+1)
				if t == nil {
					return nil
				}
				// && : the edge into the phi is taken when the term is false
				// || : when the term is true
				onTrue := pred.Succs[0] == blk
				if onTrue == isAnd {
					t = &lmBool{kind: "not", kids: []*lmBool{t}}
				}
				out.kids = append(out.kids, t)
				continue
			}
			t := an.boolExpr(e, fr, depth+1)
			if t == nil {
				return nil
			}
			out.kids = append(out.kids, t)
		}
		return out
	}
	return nil
}

// lmDisj: the comparisons c1..cn such that (e == pol) ⇔ c1 ∨ … ∨ cn, if the
// expression has that form.
func lmDisj(e *lmBool, pol bool) ([]lmTriple, bool) {
	switch e.kind {
	case "atom":
		op := e.op
		if !pol {
			op = lpNegOp(op)
		}
		return []lmTriple{{e.A, e.B, op}}, true
	case "not":
		return lmDisj(e.kids[0], !pol)
	case "and", "or":
		isOr := e.kind == "or"
		if isOr != pol && len(e.kids) != 1 {
			return nil, false // a conjunction
		}
		var out []lmTriple
		for _, k := range e.kids {
			ts, ok := lmDisj(k, pol)
			if !ok {
				return nil, false
			}
			out = append(out, ts...)
		}
		return out, true
	}
	return nil, false
}

// ---- ROOTEXACT: sum-type classifiers and table lookups ---------------------------

// lmClassifier describes a private helper that maps its single interface
// parameter to a constant per dynamic type: for every constant it returns (in
// result idx), on which kind of path — "typed" (a type assertion succeeded),
// "nil" (the parameter is nil) or "none" (every assertion failed).
func lmClassifierOf(call *ssa.Call, idx int) map[int64]map[string]bool {
	g := ir.Callee(call.Call)
	if g == nil || g.Blocks == nil || len(g.Params) != 1 || !types.IsInterface(g.Params[0].Type()) {
		return nil
	}
	for _, b := range g.Blocks {
		for _, ins := range b.Instrs {
			switch ins.(type) {
			case *ssa.Call, *ssa.Store, *ssa.Go, *ssa.Defer, *ssa.Panic:
				return nil
			}
		}
	}
	out := map[int64]map[string]bool{}
	for _, r := range ir.Returns(g) {
		if idx >= len(r.Results) {
			return nil
		}
		n, ok := lmConstInt(r.Results[idx])
		if !ok {
			return nil
		}
		kind := "none"
		for _, fc := range ir.FactsAt(r.Block()) {
			if ex, ok := fc.Cond.(*ssa.Extract); ok {
				if ta, ok := ex.Tuple.(*ssa.TypeAssert); ok && ta.CommaOk && ex.Index == 1 && ta.X == ssa.Value(g.Params[0]) {
					if fc.Truth {
						kind = "typed"
					}
					continue
				}
			}
			if tv, tnn, ok := ir.NilTest(fc.Cond); ok && tv == ssa.Value(g.Params[0]) {
				if fc.Truth != tnn {
					kind = "nil"
				}
				continue
			}
			return nil // branches on something else: not a pure classifier
		}
		if out[n] == nil {
			out[n] = map[string]bool{}
		}
		out[n][kind] = true
	}
	return out
}

// lmFormOf: v is component idx of a classifier call.
func lmFormOf(v ssa.Value) (*ssa.Call, int, bool) {
	ex, ok := ir.ResolveCell(v).(*ssa.Extract)
	if !ok {
		if call, ok := ir.ResolveCell(v).(*ssa.Call); ok && call.Call.Signature().Results().Len() == 1 {
			return call, 0, true
		}
		return nil, 0, false
	}
	call, ok := ex.Tuple.(*ssa.Call)
	return call, ex.Index, ok
}

// lmClassifierGuard judges a rejection guarded by comparisons of a
// classifier's result with constants: the forms it rejects must be exactly
// those the classifier returns when no type assertion succeeded (or for nil),
// and — in the load primitive — every such form must be rejected.
func lmClassifierGuard(iff *ssa.If, rej int, conds []ssa.Value) (int, string, string, bool) {
	type guard struct {
		op token.Token
		c  int64
	}
	var call *ssa.Call
	idx := 0
	var guards []guard
	b := iff.Block()
	add := func(cond ssa.Value, truth bool) bool {
		for {
			u, ok := cond.(*ssa.UnOp)
			if !ok || u.Op != token.NOT {
				break
			}
			truth = !truth
			cond = u.X
		}
		bin, ok := cond.(*ssa.BinOp)
		if !ok || (bin.Op != token.EQL && bin.Op != token.NEQ) {
			return false
		}
		x, y := bin.X, bin.Y
		if _, isC := lmConstInt(x); isC {
			x, y = y, x
		}
		n, isC := lmConstInt(y)
		cl, i, isF := lmFormOf(x)
		if !isC || !isF || (call != nil && (cl != call || i != idx)) {
			return false
		}
		call, idx = cl, i
		op := bin.Op
		if !truth {
			op = lpNegOp(op)
		}
		guards = append(guards, guard{op, n})
		return true
	}
	if !add(iff.Cond, rej == 0) {
		return 0, "", "", false
	}
	for _, fc := range ir.FactsAt(b) {
		add(fc.Cond, fc.Truth)
	}
	_ = conds
	forms := lmClassifierOf(call, idx)
	if forms == nil {
		return 0, "", "", false
	}
	text := lpDescCond(iff.Cond, rej == 0)
	rejected := map[int64]bool{}
	for c := range forms {
		ok := true
		for _, g := range guards {
			if (g.op == token.EQL) != (c == g.c) {
				ok = false
			}
		}
		if ok {
			rejected[c] = true
		}
	}
	hname := lpCallName(&call.Call)
	for c := range rejected {
		if forms[c]["typed"] {
			return lmDecViolation, "rejects a known link form: " + text,
				fmt.Sprintf("the rejection taken when `%s` also covers form %d, which %s returns for a link of a known dynamic type: a legal link is refused", text, c, hname), true
		}
	}
	for c, kinds := range forms {
		if kinds["none"] && !rejected[c] {
			return lmDecViolation, "accepts an unknown link type: " + text,
				fmt.Sprintf("%s returns form %d for a link that is none of the known types, and the rejection taken when `%s` does not cover it: a value that is not a link is treated as one", hname, c, text), true
		}
	}
	return lmDecOK, text, "the forms rejected are exactly those " + hname + " returns when the link is nil or none of the known types", true
}

// lmFormatLookupMiss: the rejecting edge is the exit of a counting loop over a
// slice in whose body the only branches compare m.nodeFormat with something
// (an entry's format) and leave with a result.
func lmFormatLookupMiss(iff *ssa.If, rej int) bool {
	hdr := iff.Block()
	bin, ok := iff.Cond.(*ssa.BinOp)
	if !ok || bin.Op != token.LSS || rej != 1 {
		return false
	}
	if _, _, okc := lmCounterMin(bin.X); !okc {
		return false
	}
	if _, _, okl := lmLenPlus(bin.Y); !okl {
		return false
	}
	found := false
	for _, blk := range hdr.Parent().Blocks {
		if blk == hdr || !hdr.Dominates(blk) || !ir.CanReach(blk, hdr) || len(blk.Instrs) == 0 {
			continue
		}
		in, ok := blk.Instrs[len(blk.Instrs)-1].(*ssa.If)
		if !ok {
			continue
		}
		cmp, ok := in.Cond.(*ssa.BinOp)
		if !ok || (cmp.Op != token.EQL && cmp.Op != token.NEQ) {
			return false
		}
		isFmt := false
		for _, side := range []ssa.Value{cmp.X, cmp.Y} {
			if u, ok := ir.ResolveCell(side).(*ssa.UnOp); ok && u.Op == token.MUL {
				if fa, ok := u.X.(*ssa.FieldAddr); ok && lpIsMastPtr(fa.X.Type()) && ir.FieldName(fa.X.Type(), fa.Field) == "nodeFormat" {
					isFmt = true
				}
			}
		}
		if !isFmt {
			return false
		}
		found = true
	}
	return found
}

// ---- ROOTEXACT: which configuration rejections are justified ------------------------

type lmCondT struct {
	cond  ssa.Value
	truth bool
}

// lmCfgName names the configuration item v reads: a RemoteConfig field, the
// Mast field copied from it, the configuration pointer, or the reflect type of
// one of those ("" if v is none).
func lmCfgName(v ssa.Value) string {
	v = ir.ResolveCell(ir.Strip(v))
	if call, ok := v.(*ssa.Call); ok && lmIsExt(call, "reflect.TypeOf") && len(call.Call.Args) == 1 {
		return lmCfgName(call.Call.Args[0])
	}
	if p, ok := v.(*ssa.Parameter); ok && ir.IsPtrToNamed(p.Type(), "RemoteConfig") {
		return "config"
	}
	u, ok := v.(*ssa.UnOp)
	if !ok || u.Op != token.MUL {
		return ""
	}
	fa, ok := u.X.(*ssa.FieldAddr)
	if !ok {
		return ""
	}
	if ir.IsPtrToNamed(fa.X.Type(), "RemoteConfig") || lpIsMastPtr(fa.X.Type()) {
		return ir.FieldName(fa.X.Type(), fa.Field)
	}
	return ""
}

var lmWitnessFields = map[string]bool{"KeysLike": true, "ValuesLike": true, "zeroKey": true, "zeroValue": true}
var lmStoreFields = map[string]bool{"StoreImmutablePartsWith": true, "persist": true}
var lmRegTypesFields = map[string]bool{"UnmarshalerUsesRegisteredTypes": true, "unmarshalerUsesRegisteredTypes": true}

// lmCfgRejection judges a rejection one of whose controlling conditions is
// "a configuration value is nil". Justified: the store is unset; the
// configuration itself is nil; a type witness is unset AND the same rejection
// is conditioned on the registered-types flag being false or on the list that
// needs the witness being non-empty (the decoder's guard, whose exact form
// DECODEGUARD decides). A witness rejection without either refuses the
// documented registered-types configuration.
func lmCfgRejection(cts []lmCondT, text string) (int, string, string, bool) {
	var nilItems []string
	regFalse, nonEmpty := false, false
	for _, ct := range cts {
		cond, truth := ct.cond, ct.truth
		for {
			u, ok := cond.(*ssa.UnOp)
			if !ok || u.Op != token.NOT {
				break
			}
			truth = !truth
			cond = u.X
		}
		if tv, tnn, ok := ir.NilTest(cond); ok {
			if n := lmCfgName(tv); n != "" && truth != tnn {
				nilItems = append(nilItems, n)
			}
			continue
		}
		if n := lmCfgName(cond); lmRegTypesFields[n] && !truth {
			regFalse = true
			continue
		}
		if bin, ok := cond.(*ssa.BinOp); ok && lpNegOp(bin.Op) != token.ILLEGAL {
			_, _, _, lx := lmListLen(bin.X)
			_, _, _, ly := lmListLen(bin.Y)
			_, cx := lmConstInt(bin.X)
			_, cy := lmConstInt(bin.Y)
			if (lx && cy) || (ly && cx) {
				nonEmpty = true
			}
		}
	}
	if len(nilItems) == 0 {
		return 0, "", "", false
	}
	for _, n := range nilItems {
		if lmWitnessFields[n] {
			if regFalse || nonEmpty {
				return lmDecOK, text, "a type witness is unset where it is needed (conditioned on the registered-types flag being false, or on a non-empty list: the exact form is DECODEGUARD's)", true
			}
			return lmDecViolation, "rejects when " + n + " is unset: " + text,
				fmt.Sprintf("the rejection taken when `%s` refuses every configuration without %s, although a configuration with UnmarshalerUsesRegisteredTypes and no %s is documented to work (the unmarshaler picks the types): such trees can be written but no longer load", text, n, n), true
		}
	}
	for _, n := range nilItems {
		if lmStoreFields[n] || n == "config" {
			return lmDecOK, text, "the store (or the configuration itself) is unset: nothing can be loaded", true
		}
	}
	return lmDecUndecided, "rejects when " + nilItems[0] + " is unset: " + text,
		"the rejection depends on an optional configuration value being nil; whether a configuration without it is meant to work is not decided", true
}

// lmIsLinkElem: v is an element of a Link list.
func lmIsLinkElem(v ssa.Value) bool {
	u, ok := ir.ResolveCell(v).(*ssa.UnOp)
	if !ok || u.Op != token.MUL {
		return false
	}
	ia, ok := u.X.(*ssa.IndexAddr)
	if !ok {
		return false
	}
	s, ok := ir.ResolveCell(ia.X).(*ssa.UnOp)
	if !ok || s.Op != token.MUL {
		return false
	}
	fa, ok := s.X.(*ssa.FieldAddr)
	return ok && ir.FieldName(fa.X.Type(), fa.Field) == "Link"
}

// lmWholeSizeBound: the comparison relates the length of a whole stored node's
// bytes (the result of Persist.Load or a []byte parameter) to a constant; up
// reports whether it is an upper bound on that length.
func lmWholeSizeBound(bin *ssa.BinOp, op token.Token) (up, ok bool) {
	whole := func(v ssa.Value) bool {
		call, isC := ir.ResolveCell(v).(*ssa.Call)
		if !isC {
			return false
		}
		bi, isB := call.Call.Value.(*ssa.Builtin)
		if !isB || bi.Name() != "len" || len(call.Call.Args) != 1 {
			return false
		}
		a := ir.ResolveCell(call.Call.Args[0])
		s, isS := a.Type().Underlying().(*types.Slice)
		if !isS {
			return false
		}
		if b, isB := s.Elem().Underlying().(*types.Basic); !isB || b.Kind() != types.Uint8 {
			return false
		}
		switch x := a.(type) {
		case *ssa.Parameter:
			return true
		case *ssa.Extract:
			if c, ok := x.Tuple.(*ssa.Call); ok && c.Call.IsInvoke() && c.Call.Method.Name() == "Load" {
				return true
			}
		}
		return false
	}
	x, y := bin.X, bin.Y
	if _, isC := lmConstInt(x); isC {
		x, y = y, x
		op = lpFlipOp(op)
	}
	if _, isC := lmConstInt(y); !isC || !whole(x) {
		return false, false
	}
	return op == token.GTR || op == token.GEQ, true
}

// lmZeroHeightEdge: guard is a test of H against zero, H being the greater side of the unsigned comparison `layer < H`
// that pivot branches on (same symbolic path, not stored to in the function), and from→to is the edge on which H == 0.
func lmZeroHeightEdge(pivot, guard *ssa.If, from, to *ssa.BasicBlock) bool {
	pb, ok := pivot.Cond.(*ssa.BinOp)
	if !ok {
		return false
	}
	var H ssa.Value
	switch pb.Op {
	case token.LSS:
		H = pb.Y
	case token.GTR:
		H = pb.X
	default:
		return false
	}
	bt, ok := H.Type().Underlying().(*types.Basic)
	if !ok || bt.Info()&types.IsUnsigned == 0 {
		return false
	}
	gb, ok := guard.Cond.(*ssa.BinOp)
	if !ok {
		return false
	}
	same := func(v ssa.Value) bool {
		if v == H {
			return true
		}
		a, b := ir.Sym(v), ir.Sym(H)
		if a != b || a == "" || strings.Contains(a, "?") {
			return false
		}
		// two loads of the same field: equal as long as the function does not store to it
		for _, blk := range from.Parent().Blocks {
			for _, ins := range blk.Instrs {
				if st, isSt := ins.(*ssa.Store); isSt && ir.Sym(st.Addr) != "" && strings.TrimPrefix(a, "*") == ir.Sym(st.Addr) {
					return false
				}
			}
		}
		_, isLoad := v.(*ssa.UnOp)
		return isLoad
	}
	constIs := func(v ssa.Value, n int64) bool {
		c, ok := v.(*ssa.Const)
		if !ok || c.Value == nil {
			return false
		}
		i, exact := constant.Int64Val(constant.ToInt(c.Value))
		return exact && i == n
	}
	// zeroOnTrue: the condition is true exactly when H == 0
	var zeroOnTrue, recognised bool
	switch {
	case same(gb.X) && constIs(gb.Y, 0):
		switch gb.Op {
		case token.GTR, token.NEQ:
			zeroOnTrue, recognised = false, true
		case token.EQL, token.LEQ:
			zeroOnTrue, recognised = true, true
		}
	case same(gb.Y) && constIs(gb.X, 0):
		switch gb.Op {
		case token.LSS, token.NEQ:
			zeroOnTrue, recognised = false, true
		case token.EQL, token.GEQ:
			zeroOnTrue, recognised = true, true
		}
	case same(gb.X) && constIs(gb.Y, 1):
		switch gb.Op {
		case token.GEQ:
			zeroOnTrue, recognised = false, true
		case token.LSS:
			zeroOnTrue, recognised = true, true
		}
	}
	if !recognised {
		return false
	}
	if zeroOnTrue {
		return to == from.Succs[0]
	}
	return to == from.Succs[1]
}
