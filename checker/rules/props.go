package rules

import "sort"

// Properties lists the property ids that own at least one rule.
func Properties() []string {
	seen := map[string]bool{}
	for _, r := range registry {
		for _, p := range r.Props {
			seen[p] = true
		}
	}
	var out []string
	for p := range seen {
		out = append(out, p)
	}
	sort.Strings(out)
	return out
}

var commonAssumptions = []string{
	"go/types and go/ssa (golang.org/x/tools v0.29.0) model the Go semantics of the analysed sources faithfully",
	"no unsafe, no cgo, no reflective write into node memory (package unsafe is not imported; reflect.Value.Set occurs once, into the caller's out-parameter)",
	"user-supplied callbacks (KeyCompare, marshalers, Key methods, NodeCache, Persist) cannot reach *mastNode values other than those handed to NodeCache.Add, and do not mutate them",
	"path equality stands in for a pointer analysis (no go/pointer available): two loads of the same symbolic path are equal only if no store or clobbering call lies between them; anything else is 'undecided' and fails",
}

var propAssumptions = map[string][]string{}

// Assume registers property-specific assumptions for the evidence file.
func Assume(prop string, a ...string) { propAssumptions[prop] = append(propAssumptions[prop], a...) }

// Assumptions returns what the check of prop assumes or trusts.
func Assumptions(prop string) []string {
	return append(append([]string(nil), commonAssumptions...), propAssumptions[prop]...)
}

// extraProps: further properties for which a rule's clause is a necessary
// condition, beyond the ones named where the rule is defined. (A finding is
// still charged only to the properties whose API surface reaches the
// function it sits in, see attrib.go.)
var extraProps = map[string][]string{
	"FORMATCONST_KEYORDER": {"C01", "C04"},        // built-in key order is the map's order and shapes the reference tree
	"FORMATCONST_LAYER":    {"C04", "C09", "C19"}, // layers determine the canonical shape, and the validator judges a root by them
	"SIZE":                 {"C09"},               // Root.Size = number of entries
	"HASHNAME":             {"C14", "C04"},        // hash and encoding identities are part of the published format
	"DET":                  {"C14"},
	"ENCINPUTS":            {"C14", "C04"},
	"LINKNIL":              {"C06", "C07"},
	"NILROOT":              {"C10", "C07"},
	"PURITY":               {"C02", "C10"}, // a scan that writes tree-visible state (a path buffer kept on the Mast) is corrupted by a nested scan from its own callback
	"TRIPLE":               {"C01"},
	"THRESH":               {"C05"},
	"FORMATS":              {"C14"},
	"CODECSYM":             {"C14"},
	// the Root is the handle of a captured version: its Link is the name the flush returned, held by the Root alone
	// (C02: a kept Root never changes; C07: a published version is announced by name; C08: the name is the hash of what was written)
	// C14: the Root records the node format the version was written in; a persist that drops it re-writes a legacy tree in the default format (C14-m43)
	"ROOTFIELDS":         {"C04", "C02", "C07", "C08", "C15", "C14"},
	"CBPROP":             {"C07"}, // DiffLinks runs the same driver: a step error that is retried or dropped ends the node diff "successfully" with names missing (C07-m43)
	"NAVCOMMIT":          {"C10"}, // a placement (Min/Max/Ceil) or step that fails half-way and is retried must land where the sorted sequence says: a cursor emptied by a failed Max reports 'no entry' on a non-empty tree (C10-m42)
	"KEYOPAQUE":          {"C09", "C04"}, // keys ordered natively in one place and by the configured comparator elsewhere end up out of order in persisted nodes
	"ROOTEXACT":          {"C01"},        // a legal stored node that is refused makes every operation on the reloaded tree fail
	"FORMATCONST_CONSTS": {"C05"},        // a default built over the caller's nil marshaler cannot persist or reload struct keys
	"SIGNONLY":           {"C15"},        // a comparator result tested against ±1 sends a removed key down the addition branch: the diff expands everything after it
	"CTOR":               {"C19"},        // the validator runs with the comparator and layer function LoadMast installed
	"NILLINKDECODE":      {"C01"},        // an absent child decoded as the empty name makes every operation on the reloaded tree fail
	"ROOTSWAP":           {"C15"},        // a persisted tree whose root stays an in-memory node never compares equal by name: the diff against its own version reads nodes
	"ROOTDIRTY":          {"C04"},        // a name or a stale child installed as root leaves a height its contents do not justify
	"LINKNAMES":          {"C11"},        // a published node that still points at an in-memory child shares that child with every tree that loads it
	"EMITGRAMMAR":        {"C08"},        // equal bytes only for equal contents: each element is emitted from its own encoding
	// copy-on-write is what makes a reloaded tree independent of its source (C05, "with or without a node cache"),
	// what keeps "same root name ⇒ same contents" true in memory (C08), what makes a failed operation harmless
	// before the root swap (C12), and what C01 quantifies over ("cache on/off")
	// and what the diffs compare (C06, C07): two persisted versions read through one node cache are the versions as
	// persisted only if no tree edits a published node in place (C07-m31: after persist-insert-persist DiffLinks saw
	// the later contents under the earlier root and a replica holding v1 could not load v2)
	"OWN":        {"C01", "C04", "C05", "C08", "C09", "C12", "C13", "C06", "C07"},
	"SHAREDPUB":  {"C01", "C04", "C05", "C08", "C09", "C12", "C13", "C06", "C07"},
	"FLAGS":      {"C01", "C04", "C05", "C08", "C09", "C12", "C14", "C06", "C07", "C03"}, // C03: the node store skips what the flags call persisted; a node marked shared while still unsaved is skipped by the other tree's persist (C03-m43) // a decoded node that forgets its stored name is written again under a new one
	"ALIAS":      {"C01", "C04", "C05", "C08", "C09", "C12", "C13", "C11", "C06", "C07"},
	"COMMIT":     {"C09"},               // a failed operation that leaves a half-applied change breaks the shape the next persist records
	"NOEMPTY":    {"C13"},               // an entry-less node that gets linked is written: garbage
	"CACHEAFTER": {"C11", "C02", "C19"}, // one tree's unfinished write must not make another tree skip its own; a node cached before it is stored is served to LoadMast as if the version existed
	"ATOMICFILE": {"C18", "C08"},        // a successful file Store has written the bytes — all of them: a short write reported as success leaves a name that is not the digest of the bytes under it (C08-m32)
	"STOREWRITES":     {"C08"},          // same for the other backends: success means the bytes given are what the name holds
	"ERRPROP_BACKEND": {"C08", "C17"},   // a write or sync error that is dropped turns a partial node into a "successful" write
}

// dropProps removes a property from a rule's owners where a violation of the
// rule's clause does not by itself violate that property (found when the
// ownership table was reviewed against the properties' statements and
// quantifiers): an alarm for such a property would be a false alarm even
// though the code is defective with respect to another property.
var dropProps = map[string][]string{
	"CACHEAFTER":    {"C13"},        // a node cached too early causes missing writes (C03), not extra ones
	"NODEURLPREFIX": {"C18"},        // the prefix is not part of the Load/Store contract
	"ERRFLOW":       {"C01", "C05"}, // C01 and C05 quantify over healthy stores
	"POWLOOP":       {"C09"},
	"GROWLOOP":      {"C09"}, // a too-small height still satisfies the shape invariants
	"NILLINKDECODE": {"C09"},
	"CURSORCLONE":   {"C10"},
}
