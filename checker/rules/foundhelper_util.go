package rules

import (
	"go/types"

	"golang.org/x/tools/go/ssa"

	"mastcheck/ir"
)

// A confirmation ("the key compared equal", "DeepEqual(stored value, value argument) came out true") may have been
// moved, unchanged, into a private helper whose outcome the caller tests:
//
//	err = entryMatches(m, node, i, key, value); if err != nil { return … }; return node, i, nil
//
// The fact the caller has is "result #k of h(args) was nil" (or non-nil / true / false). What that means is read off
// the helper itself: every return of h that can yield the observed outcome must lie under the demanded fact — decided
// by the same acceptor, in the helper's own terms, with the helper's parameters bound to the arguments of this call.
// Helpers of helpers are followed the same way (bounded depth). Nothing is assumed about a return whose result is not
// a constant: it counts as yielding the observed outcome unless a dominating test in the helper refutes that.

// bindFn maps a value of the function being looked at to the value it stands for in the outermost function (a
// parameter of a helper → the argument handed over); nil when it does not stand for one.
type bindFn func(ssa.Value) ssa.Value

func identityBind(v ssa.Value) ssa.Value { return ir.ResolveCell(ir.Strip(v)) }

// (privateHelper, region.go: unexported, not a closure, never used as a value, statically called — all callers known.)

// helperOutcome decodes a branch fact about a result of a static call: which call, which result, and what was observed
// (isNilTest: the result was nil (observed=false: non-nil); otherwise the boolean result had the value observed).
func helperOutcome(f ir.Fact) (call *ssa.Call, res int, isNilTest bool, observed bool, ok bool) {
	pick := func(v ssa.Value) (*ssa.Call, int, bool) {
		switch x := ir.ResolveCell(v).(type) {
		case *ssa.Call:
			if x.Call.Signature().Results().Len() == 1 {
				return x, 0, true
			}
		case *ssa.Extract:
			if cl, isCall := x.Tuple.(*ssa.Call); isCall {
				return cl, x.Index, true
			}
		}
		return nil, 0, false
	}
	if tv, tnn, isNT := ir.NilTest(f.Cond); isNT {
		if cl, i, ok := pick(tv); ok {
			return cl, i, true, f.Truth != tnn, true // observed = "was nil"
		}
		return nil, 0, false, false, false
	}
	if bt, isB := f.Cond.Type().Underlying().(*types.Basic); isB && bt.Kind() == types.Bool {
		if cl, i, ok := pick(f.Cond); ok {
			return cl, i, false, f.Truth, true
		}
	}
	return nil, 0, false, false, false
}

// heldThroughHelpers: one of the facts is accepted, or is the outcome of a private helper all of whose returns
// yielding that outcome lie under an accepted fact (recursively).
func heldThroughHelpers(c *Ctx, facts []ir.Fact, bind bindFn, accept func(ir.Fact, bindFn) bool, depth int) bool {
	for _, f := range facts {
		if accept(f, bind) {
			return true
		}
	}
	if depth >= 3 {
		return false
	}
	for _, f := range facts {
		call, res, isNil, observed, ok := helperOutcome(f)
		if !ok || call.Call.IsInvoke() {
			continue
		}
		h := ir.Callee(call.Call)
		if !privateHelper(c, h) || len(call.Call.Args) != len(h.Params) {
			continue
		}
		args := call.Call.Args
		inner := func(v ssa.Value) ssa.Value {
			p, isP := ir.ResolveCell(ir.Strip(v)).(*ssa.Parameter)
			if !isP || p.Parent() != h {
				return nil
			}
			for i, hp := range h.Params {
				if hp == p {
					return bind(args[i])
				}
			}
			return nil
		}
		n, all := 0, true
		for _, r := range ir.Returns(h) {
			if res >= len(r.Results) {
				all = false
				break
			}
			for _, rc := range resultCases(r, r.Results[res]) {
				rv, fs := rc.v, rc.facts
				if isNil {
					if ir.IsNilConst(rv) {
						if !observed {
							continue
						}
					} else if observed && knownNonNilError(rv, rc.at) {
						continue // made by fmt.Errorf / errors.New, or found non-nil by a dominating test: never the observed nil
					} else if nilFactOn(rc.at.Block(), rv, !observed) {
						continue // a test in the helper refutes the observed outcome on this return
					}
				} else {
					rc := ir.ResolveCell(rv)
					if cb, isC := ir.ConstBool(rc); isC {
						if cb != observed {
							continue
						}
					} else {
						fs = append(append([]ir.Fact{}, fs...), ir.ExpandFacts([]ir.Fact{{Cond: rc, Truth: observed, From: r.Block()}})...)
					}
				}
				n++
				if !heldThroughHelpers(c, fs, inner, accept, depth+1) {
					all = false
					break
				}
			}
			if !all {
				break
			}
		}
		if all && n > 0 {
			return true
		}
	}
	return false
}

// resultCase: one way a returned value comes about — the value, the instruction at which it is fixed (the return, or
// the end of the predecessor block of a φ) and the branch facts that hold there.
type resultCase struct {
	v     ssa.Value
	at    ssa.Instruction
	facts []ir.Fact
}

// resultCases splits a returned φ (`err` assigned on some branches, `return err` at the end) into its incoming values,
// each with the facts of the block it comes from plus the branch taken out of that block and the facts at the return.
func resultCases(r *ssa.Return, rv ssa.Value) []resultCase {
	base := ir.FactsAt(r.Block())
	var out []resultCase
	seen := map[*ssa.Phi]bool{}
	var walk func(v ssa.Value, at ssa.Instruction, fs []ir.Fact)
	walk = func(v ssa.Value, at ssa.Instruction, fs []ir.Fact) {
		phi, isPhi := v.(*ssa.Phi)
		if !isPhi || seen[phi] || len(phi.Block().Preds) != len(phi.Edges) {
			out = append(out, resultCase{v, at, fs})
			return
		}
		seen[phi] = true
		for i, e := range phi.Edges {
			pred := phi.Block().Preds[i]
			if len(pred.Instrs) == 0 {
				out = append(out, resultCase{v, at, fs})
				continue
			}
			last := pred.Instrs[len(pred.Instrs)-1]
			efs := append(append([]ir.Fact{}, base...), ir.FactsAt(pred)...)
			if br, isIf := last.(*ssa.If); isIf && len(pred.Succs) == 2 && pred.Succs[0] != pred.Succs[1] {
				efs = append(efs, ir.ExpandFacts([]ir.Fact{{Cond: br.Cond, Truth: pred.Succs[0] == phi.Block(), From: pred}})...)
			}
			walk(e, last, efs)
		}
	}
	walk(rv, r, base)
	return out
}
