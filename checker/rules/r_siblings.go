package rules

import (
	"fmt"
	"go/token"
	"go/types"
	"sort"
	"strings"

	"golang.org/x/tools/go/ssa"

	"mastcheck/ir"
)

// Sibling agreement (Engler et al.: implementations of the same thing must
// agree): the tree search exists twice — (*mastNode).findNode for point
// operations and (*Cursor).search1 for cursors — and Key/Value are always
// sliced in parallel.

func init() {
	Register(&Rule{ID: "SEARCHSIBLINGS", Props: []string{"C01", "C10"}, Min: 1,
		Doc: "the two copies of the in-node key search (findNode, used by Get/Insert/Delete/SeekIter, and Cursor.search1, used by Ceil) agree on their comparison skeleton: " +
			"the same argument order in every keyOrder call (probe key first, node key second, at the same index class) and the same set of tests on each comparison result.",
		Run: runSEARCHSIBLINGS})
	Register(&Rule{ID: "PARSLICE", Props: []string{"C09", "C01", "C04"}, Min: 4,
		Doc: "Key and Value of a node are sliced in parallel: within a function, the set of (low, high) bounds applied to a node's Key slice equals the set applied to the same node's Value slice.",
		Run: runPARSLICE})
}

// searchSkeleton describes every key comparison of fn and its closures.
func searchSkeleton(c *Ctx, fn *ssa.Function) []string {
	var out []string
	// the function, its closures, and the helpers it calls directly (a shared search helper makes the
	// two siblings agree by construction)
	seenF := map[*ssa.Function]bool{}
	var fns []*ssa.Function
	var add func(f *ssa.Function, depth int)
	add = func(f *ssa.Function, depth int) {
		if f == nil || seenF[f] || f.Blocks == nil {
			return
		}
		seenF[f] = true
		fns = append(fns, f)
		for _, a := range f.AnonFuncs {
			add(a, depth)
		}
		if depth < 2 {
			for _, ci := range CallsOf(f) {
				if sc := ir.Callee(ci.Common()); sc != nil && sc != fn && sc.Pkg == fn.Pkg && sc.Name() != fn.Name() && !c.Facts.MayLoad[sc] {
					add(sc, depth+1)
				}
			}
		}
	}
	add(fn, 0)
	for _, f := range fns {
		for _, ci := range CallsOf(f) {
			call, ok := ci.(*ssa.Call)
			if !ok || !isKeyCompareCall(call) {
				continue
			}
			var args []string
			for _, a := range call.Call.Args {
				args = append(args, keyArgClass(a))
			}
			// tests on the comparison result (through the cell go/ssa creates for captured cmp)
			tests := map[string]bool{}
			var res ssa.Value
			if call.Referrers() != nil {
				for _, r := range *call.Referrers() {
					if ex, ok := r.(*ssa.Extract); ok && ex.Index == 0 {
						res = ex
					}
				}
			}
			if res != nil {
				collectCmpTests(res, tests, map[ssa.Value]bool{})
			}
			var ts []string
			for t := range tests {
				ts = append(ts, t)
			}
			sort.Strings(ts)
			out = append(out, fmt.Sprintf("keyOrder(%s) tested %s", strings.Join(args, ", "), strings.Join(ts, " ")))
		}
	}
	sort.Strings(out)
	return out
}

func keyArgClass(a ssa.Value) string {
	a = ir.Strip(ir.ResolveCell(a))
	switch x := a.(type) {
	case *ssa.Parameter:
		return "probe"
	case *ssa.FreeVar:
		return "probe"
	case *ssa.UnOp:
		if x.Op == token.MUL {
			if ia, ok := x.X.(*ssa.IndexAddr); ok {
				// an element of the node's key list (directly, or of a slice parameter it was passed as)
				idx := "i"
				if b, ok := ia.Index.(*ssa.BinOp); ok {
					if k, isK := ir.ConstInt(b.Y); isK {
						idx = fmt.Sprintf("i%s%d", b.Op, k)
					}
				}
				return "keys[" + idx + "]"
			}
			if _, ok := x.X.(*ssa.FreeVar); ok {
				return "probe"
			}
		}
	}
	return "other"
}

// collectCmpTests finds comparisons of v (or of a variable it is stored into)
// against integer constants.
func collectCmpTests(v ssa.Value, tests map[string]bool, seen map[ssa.Value]bool) {
	if seen[v] || v.Referrers() == nil {
		return
	}
	seen[v] = true
	for _, r := range *v.Referrers() {
		switch x := r.(type) {
		case *ssa.BinOp:
			// relational tests steer the search; ==/!= are uses of its outcome and differ legitimately
			if k, isK := ir.ConstInt(x.Y); isK && x.X == v && x.Op != token.EQL && x.Op != token.NEQ {
				tests[fmt.Sprintf("%s%d", x.Op, k)] = true
			}
		case *ssa.Phi:
			collectCmpTests(x, tests, seen)
		case *ssa.Store:
			// cmp is a captured variable: every load of the cell
			// only the loads this assignment reaches inside its own function
			if cell := ir.CellOf(x.Addr); cell != nil && x.Val == v {
				forEachCellLoad(cell, func(ld *ssa.UnOp) {
					if ld.Parent() == x.Parent() && ir.InstrReaches(x, ld) {
						collectCmpTests(ld, tests, seen)
					}
				})
			}
		}
	}
}

func forEachCellLoad(cell *ssa.Alloc, f func(*ssa.UnOp)) {
	var visit func(v ssa.Value)
	visit = func(v ssa.Value) {
		if v.Referrers() == nil {
			return
		}
		for _, r := range *v.Referrers() {
			switch y := r.(type) {
			case *ssa.UnOp:
				if y.Op == token.MUL {
					f(y)
				}
			case *ssa.MakeClosure:
				cf := y.Fn.(*ssa.Function)
				for i, b := range y.Bindings {
					if b == v {
						visit(cf.FreeVars[i])
					}
				}
			}
		}
	}
	visit(cell)
}

func runSEARCHSIBLINGS(c *Ctx) {
	P := c.P
	a := c.MustFunc("(*mastNode).findNode")
	b := c.MustFunc("(*Cursor).search1")
	if a == nil || b == nil {
		return
	}
	sa, sb := searchSkeleton(c, a), searchSkeleton(c, b)
	if len(sa) == 0 || len(sb) == 0 {
		c.Undecided(a, P.Pos(a.Pos()), "no key comparisons found", "cannot extract the comparison skeleton of the in-node search")
		return
	}
	if strings.Join(sa, "; ") == strings.Join(sb, "; ") {
		c.OK(P.Pos(a.Pos()), "findNode and Cursor.search1 agree", strings.Join(sa, "; "), false)
		return
	}
	c.Violation(nil, P.Pos(b.Pos()), "in-node search differs between findNode and Cursor.search1",
		fmt.Sprintf("the two copies of the same search disagree — findNode: {%s}; search1: {%s}: one of them locates keys differently (point lookups and cursor seeks would disagree about where a key is)", strings.Join(sa, "; "), strings.Join(sb, "; ")))
}

func runPARSLICE(c *Ctx) {
	P := c.P
	type key struct {
		fn   *ssa.Function
		base string
	}
	bounds := map[key]map[string]map[string]ssa.Instruction{}
	for _, fn := range P.Funcs {
		if fn.Pkg.Pkg.Path() != ir.MastPath {
			continue
		}
		for _, b := range fn.Blocks {
			for _, ins := range b.Instrs {
				// a slice helper applied to node.Key / node.Value (removeAt(node.Key, i)): the integer
				// arguments are the "bounds" that both calls must agree on
				if call, isCall := ins.(*ssa.Call); isCall {
					_, isStd := stdSliceOp(call)
					if callee := ir.Callee(call.Call); callee != nil && ((callee.Blocks != nil && callee.Pkg != nil) || isStd) {
						for ai, a := range call.Call.Args {
							base, f, ok := nodeSliceRoot(a)
							if !ok || (f != "Key" && f != "Value") {
								continue
							}
							if _, isSlice := a.Type().Underlying().(*types.Slice); !isSlice {
								continue
							}
							// only slice→slice helpers (insertAt, removeAt) reshape the list; a search over the keys does not
							if rs := callee.Signature.Results(); rs.Len() != 1 || !types.Identical(call.Type(), a.Type()) {
								continue
							}
							sig := callee.Name() + "("
							for aj, o := range call.Call.Args {
								if aj == ai {
									sig += "_,"
								} else if bt, ok := o.Type().Underlying().(*types.Basic); ok && bt.Info()&types.IsInteger != 0 {
									// a measure of the list itself (cap(node.Key) next to node.Key) is the same
									// "bound" for both lists: name the list neutrally
									d := pathDesc(ir.Sym(o))
									d = strings.ReplaceAll(d, "."+f+")", ".·)")
									sig += d + ","
								} else {
									sig += "·,"
								}
							}
							sig += ")"
							k := key{fn, ir.Sym(ir.ResolveCell(base))}
							if bounds[k] == nil {
								bounds[k] = map[string]map[string]ssa.Instruction{"Key": {}, "Value": {}}
							}
							bounds[k][f][sig] = call
						}
					}
					continue
				}
				sl, ok := ins.(*ssa.Slice)
				if !ok {
					continue
				}
				base, f, ok := nodeSliceRoot(sl.X)
				if !ok || (f != "Key" && f != "Value") {
					continue
				}
				if _, isSl := sl.X.(*ssa.Slice); isSl {
					continue
				}
				lo, hi := "", ""
				if sl.Low != nil {
					lo = pathDesc(ir.Sym(sl.Low))
				}
				if sl.High != nil {
					hi = pathDesc(ir.Sym(sl.High))
				}
				k := key{fn, ir.Sym(ir.ResolveCell(base))}
				if bounds[k] == nil {
					bounds[k] = map[string]map[string]ssa.Instruction{"Key": {}, "Value": {}}
				}
				bounds[k][f]["["+lo+":"+hi+"]"] = sl
			}
		}
	}
	var ks []key
	for k := range bounds {
		ks = append(ks, k)
	}
	sort.Slice(ks, func(i, j int) bool {
		if ks[i].fn.Pos() != ks[j].fn.Pos() {
			return ir.PosLess(ks[i].fn.Pos(), ks[j].fn.Pos())
		}
		return ks[i].base < ks[j].base
	})
	for _, k := range ks {
		kb, vb := bounds[k]["Key"], bounds[k]["Value"]
		var onlyK, onlyV []string
		var at ssa.Instruction
		for b, i := range kb {
			if vb[b] == nil {
				onlyK = append(onlyK, b)
				at = i
			}
		}
		for b, i := range vb {
			if kb[b] == nil {
				onlyV = append(onlyV, b)
				at = i
			}
		}
		what := fmt.Sprintf("slices of %s.Key / .Value in %s", pathDesc(k.base), ir.FuncName(k.fn))
		if len(onlyK) == 0 && len(onlyV) == 0 {
			var bs []string
			for b := range kb {
				bs = append(bs, b)
			}
			sort.Strings(bs)
			var first ssa.Instruction
			for _, i := range kb {
				if first == nil || ir.PosLess(i.Pos(), first.Pos()) {
					first = i
				}
			}
			c.OK(P.InstrPos(first), what, "same bounds on both: "+strings.Join(bs, " "), false)
			continue
		}
		sort.Strings(onlyK)
		sort.Strings(onlyV)
		c.Violation(k.fn, P.InstrPos(at), "Key and Value of "+pathDesc(k.base)+" sliced with different bounds",
			fmt.Sprintf("Key only: %v, Value only: %v — entries would pair keys with the values of other keys", onlyK, onlyV))
	}
}

// isKeyCompareCall: a call through a function value of the KeyCompare shape,
// func(_, _ interface{}) (int, error).
func isKeyCompareCall(call *ssa.Call) bool {
	if call.Call.IsInvoke() || ir.Callee(call.Call) != nil {
		return false
	}
	sig := call.Call.Signature()
	if sig.Params().Len() != 2 || sig.Results().Len() != 2 {
		return false
	}
	for i := 0; i < 2; i++ {
		it, ok := sig.Params().At(i).Type().Underlying().(*types.Interface)
		if !ok || it.NumMethods() != 0 {
			return false
		}
	}
	b, ok := sig.Results().At(0).Type().Underlying().(*types.Basic)
	return ok && b.Kind() == types.Int && ir.IsErrorType(sig.Results().At(1).Type())
}

// ---- KEYOPAQUE -----------------------------------------------------------------------------

func init() {
	Register(&Rule{ID: "KEYOPAQUE", Props: []string{"C01"}, Min: 1,
		Doc: "the tree logic is parametric in the key and value types: outside the default comparator/layer functions no function type-asserts, type-switches on or converts a user key or value — they are only handed to the key order, the layer function, the marshalers, DeepEqual and formatting. " +
			"This is what lets one argument cover every key and value type the property quantifies over.",
		Run: runKEYOPAQUE})
}

func runKEYOPAQUE(c *Ctx) {
	P := c.P
	userParams := userValueParams(c)
	exempt := map[*ssa.Function]bool{}
	for _, name := range []string{"DefaultKeyCompare", "DefaultLayer"} {
		if f := c.P.MastFunc(name); f != nil {
			exempt[f] = true
			for _, a := range allAnon(f) {
				exempt[a] = true
			}
		}
	}
	n := 0
	for _, fn := range P.Funcs {
		if fn.Pkg.Pkg.Path() != ir.MastPath || exempt[fn] {
			continue
		}
		for _, b := range fn.Blocks {
			for _, ins := range b.Instrs {
				ta, ok := ins.(*ssa.TypeAssert)
				if !ok {
					continue
				}
				k, w := provenance(ta.X, userParams, 0)
				if k != provUser {
					continue
				}
				n++
				c.Violation(fn, P.InstrPos(ta), "type assertion on a user key/value ("+w+")",
					"the tree treats keys and values as opaque; special-casing a dynamic type here makes behaviour depend on the key type outside the comparator and layer functions")
			}
		}
	}
	c.OK("-", "type assertions on user keys/values outside the default comparator/layer", fmt.Sprintf("%d found", n), false)
}

// ---- GROWSIBS -------------------------------------------------------------------------------
//
// canGrow decides whether a level must be added ("some root key belongs above the current height"),
// grow decides which root keys move up. Both compare a key's layer with the tree's height; they are
// two statements of one predicate and must agree (cross-check of siblings).

func init() {
	Register(&Rule{ID: "GROWSIBS", Props: []string{"C04", "C09"}, Min: 2,
		Doc: "the growth test (the looped (bool, error) test Insert makes on the root) answers true under the same relation between a key's layer and the tree's height under which grow promotes a key into the new root: same comparison after normalising operand order and branch polarity (today: layer > height in both).",
		Run: runGROWSIBS})
}

// layerHeightRel: if cond compares a key layer (result of the layer callback) with the height
// (Mast.height, or an unsigned parameter), the relation "layer REL height" that holds when cond == truth.
func layerHeightRel(c *Ctx, cond ssa.Value, truth bool) (string, bool) {
	bin, ok := cond.(*ssa.BinOp)
	if !ok {
		return "", false
	}
	isLayer := func(v ssa.Value) bool {
		ex, ok := ir.Origin(v).(*ssa.Extract)
		if !ok || ex.Index != 0 {
			return false
		}
		call, ok := ex.Tuple.(*ssa.Call)
		if !ok {
			return false
		}
		if strings.HasPrefix(c.Facts.External(call), "callback:keyLayer") || isKeyLayerResult(c, v, 0) {
			return true
		}
		// a call through a function-typed parameter of the layer shape func(interface{}, uint) (uint8, error)
		if ir.Callee(call.Call) == nil && !call.Call.IsInvoke() {
			sig := call.Call.Signature()
			if sig.Params().Len() == 2 && sig.Results().Len() == 2 && ir.IsErrorType(sig.Results().At(1).Type()) {
				if b, ok := sig.Results().At(0).Type().Underlying().(*types.Basic); ok && b.Kind() == types.Uint8 {
					return true
				}
			}
		}
		return false
	}
	isHeight := func(v ssa.Value) bool {
		if mastFieldLoad(v, "height") {
			return true
		}
		if p, ok := ir.ResolveCell(v).(*ssa.Parameter); ok {
			if b, ok := p.Type().Underlying().(*types.Basic); ok && b.Kind() == types.Uint8 {
				return true
			}
		}
		return false
	}
	op := bin.Op
	switch {
	case isLayer(bin.X) && isHeight(bin.Y):
	case isLayer(bin.Y) && isHeight(bin.X):
		// height OP layer  ≡  layer OP' height
		switch op {
		case token.LSS:
			op = token.GTR
		case token.LEQ:
			op = token.GEQ
		case token.GTR:
			op = token.LSS
		case token.GEQ:
			op = token.LEQ
		}
	default:
		return "", false
	}
	if !truth {
		switch op {
		case token.LSS:
			op = token.GEQ
		case token.LEQ:
			op = token.GTR
		case token.GTR:
			op = token.LEQ
		case token.GEQ:
			op = token.LSS
		case token.EQL:
			op = token.NEQ
		case token.NEQ:
			op = token.EQL
		}
	}
	return "layer " + op.String() + " height", true
}

func runGROWSIBS(c *Ctx) {
	P := c.P
	ins := c.MustFunc("(*Mast).Insert")
	grow := c.MustFunc("(*Mast).grow")
	if ins == nil || grow == nil {
		return
	}
	// the growth test: as in GROWCHECK — a looped (bool, error) call of Insert that is handed a node
	var test *ssa.Function
	for _, rs := range regionSites(c, ins) {
		call, ok := rs.ci.(*ssa.Call)
		if !ok || !rs.inLoop() {
			continue
		}
		hasNode := false
		for _, a := range call.Call.Args {
			if isNodePtr(a.Type()) {
				hasNode = true
			}
		}
		if !hasNode {
			continue
		}
		res := call.Call.Signature().Results()
		if res.Len() != 2 || !ir.IsErrorType(res.At(1).Type()) {
			continue
		}
		if b, ok := res.At(0).Type().Underlying().(*types.Basic); !ok || b.Kind() != types.Bool {
			continue
		}
		if f := ir.Callee(call.Call); f != nil && f.Blocks != nil {
			test = f
		}
	}
	if test == nil {
		c.AnchorMissing("the growth test called by Insert")
		return
	}
	// relation under which the test answers true (looking through a helper whose answer it passes on)
	testRel := map[string]ssa.Instruction{}
	testCond := map[string]ssa.Value{}
	var relFn *ssa.Function
	var trueRel func(fn *ssa.Function, depth int)
	trueRel = func(fn *ssa.Function, depth int) {
		if depth > 3 {
			return
		}
		tei := ir.ErrorResultIndex(fn.Signature)
		for _, r := range ir.Returns(fn) {
			if tei >= 0 && !ir.IsNilConst(r.Results[tei]) {
				continue // the answer next to an error is not looked at
			}
			rv := ir.ResolveCell(r.Results[0])
			if v, isC := ir.ConstBool(rv); isC {
				if !v {
					continue
				}
				found := false
				for _, f := range ir.FactsAt(r.Block()) {
					if rel, ok := layerHeightRel(c, f.Cond, f.Truth); ok {
						testRel[rel] = r
						testCond[rel] = f.Cond
						relFn = fn
						found = true
					}
				}
				if !found {
					c.Undecided(fn, P.InstrPos(r), "growth test answers true without a layer comparison", "a 'true' return of "+fn.Name()+" is not conditioned on a comparison of a key's layer with the height")
				}
				continue
			}
			if ex, ok := rv.(*ssa.Extract); ok && ex.Index == 0 {
				if call, ok := ex.Tuple.(*ssa.Call); ok {
					if g := ir.Callee(call.Call); g != nil && g.Blocks != nil && isOwn(P, g) {
						trueRel(g, depth+1)
						continue
					}
				}
			}
			for _, f := range ir.ExpandFacts([]ir.Fact{{Cond: rv, Truth: true, From: r.Block()}}) {
				if rel, ok := layerHeightRel(c, f.Cond, f.Truth); ok {
					testRel[rel] = r
					testCond[rel] = f.Cond
					relFn = fn
				}
			}
		}
	}
	trueRel(test, 0)
	// the height the comparison uses is the tree's height: a height parameter is fed with Mast.height by every caller
	if relFn != nil {
		for pi, prm := range relFn.Params {
			bt, ok := prm.Type().Underlying().(*types.Basic)
			if !ok || bt.Kind() != types.Uint8 {
				continue
			}
			for _, cs := range P.Callers[relFn] {
				args := cs.Common().Args
				if pi >= len(args) {
					continue
				}
				if mastFieldLoad(args[pi], "height") {
					c.OK(P.InstrPos(cs), fmt.Sprintf("argument %d of %s", pi, relFn.Name()), "the tree's height", false)
				} else {
					c.Violation(cs.Parent(), P.InstrPos(cs), "growth test not given the tree's height", "the height the test compares key layers with must be Mast.height")
				}
			}
		}
	}
	// ... or the test is handed the tree and reads Mast.height itself (`func (m *Mast) canGrow(node)`): the tree it reads
	// it from is the one its callers are working on
	if relFn != nil {
		var rels []string
		for rel := range testCond {
			rels = append(rels, rel)
		}
		sort.Strings(rels)
		for _, rel := range rels {
			bin, _ := testCond[rel].(*ssa.BinOp)
			if bin == nil {
				continue
			}
			for _, opd := range []ssa.Value{bin.X, bin.Y} {
				if !mastFieldLoad(opd, "height") {
					continue
				}
				v := opd
				for {
					if cv, isCv := v.(*ssa.Convert); isCv {
						v = cv.X
					} else if ct, isCt := v.(*ssa.ChangeType); isCt {
						v = ct.X
					} else {
						break
					}
				}
				tree := ir.ResolveCell(v.(*ssa.UnOp).X.(*ssa.FieldAddr).X)
				prm, isPrm := tree.(*ssa.Parameter)
				pi := -1
				for i, p := range relFn.Params {
					if isPrm && p == prm {
						pi = i
					}
				}
				if pi < 0 {
					c.Undecided(relFn, P.InstrPos(testRel[rel]), "growth test reads the height of a tree it was not handed", "the height the test compares key layers with must be the height of the tree being inserted into; "+relFn.Name()+" reads it from "+pathDesc(ir.Sym(tree)))
					continue
				}
				for _, cs := range P.Callers[relFn] {
					args := cs.Common().Args
					if cs.Common().IsInvoke() || pi >= len(args) {
						continue
					}
					if ap, isP := ir.ResolveCell(args[pi]).(*ssa.Parameter); isP && ir.IsPtrToNamed(ap.Type(), "Mast") {
						c.OK(P.InstrPos(cs), fmt.Sprintf("argument %d of %s (the tree whose height it reads)", pi, relFn.Name()), "the caller's own tree", false)
					} else {
						c.Violation(cs.Parent(), P.InstrPos(cs), "growth test not given the tree's height", "the height the test compares key layers with must be Mast.height of the tree being inserted into; the tree handed to "+relFn.Name()+" is "+pathDesc(ir.Sym(args[pi])))
					}
				}
			}
		}
	}
	// relation under which grow promotes a key: the block that appends the key to the new root
	growRel := map[string]ssa.Instruction{}
	var growBlocks []*ssa.BasicBlock
	for _, gf := range regionOf(c, grow) {
		growBlocks = append(growBlocks, gf.Blocks...)
	}
	for _, b := range growBlocks {
		if !inCycle(b) {
			continue
		}
		for _, in := range b.Instrs {
			call, ok := in.(*ssa.Call)
			if !ok {
				continue
			}
			if bi, ok := call.Call.Value.(*ssa.Builtin); !ok || bi.Name() != "append" {
				continue
			}
			if _, f, ok := nodeSliceRoot(call.Call.Args[0]); !ok || f != "Key" {
				continue
			}
			for _, f := range ir.FactsAt(b) {
				if rel, ok := layerHeightRel(c, f.Cond, f.Truth); ok {
					growRel[rel] = call
				}
			}
		}
	}
	if len(testRel) == 0 || len(growRel) == 0 {
		c.Undecided(grow, P.Pos(grow.Pos()), "layer/height comparison not found", fmt.Sprintf("relations found: test %d, grow %d", len(testRel), len(growRel)))
		return
	}
	for rel, at := range testRel {
		if growRel[rel] != nil {
			c.OK(P.InstrPos(at), test.Name()+" answers true when "+rel, "grow promotes a key under the same relation ("+P.InstrPos(growRel[rel])+")", false)
		} else {
			var others []string
			for g := range growRel {
				others = append(others, g)
			}
			sort.Strings(others)
			c.Violation(test, P.InstrPos(at), "growth test and grow disagree on which keys belong above the root",
				fmt.Sprintf("%s answers true when %s, but grow promotes a key when %s: the tree grows although no key moves up (key-less pass-through roots, height no longer a function of the entries) or fails to grow when one would", test.Name(), rel, strings.Join(others, " / ")))
		}
	}
}

// ---- GROWSHRINK -----------------------------------------------------------------------------
//
// height = min(highest key layer, floor(log_bf(size-1))). Insert adds a level when the size allows it AND a root
// key belongs higher; Delete must remove one when the size no longer allows it OR no key is left in the top
// layer. The two loops are siblings: they must put the size boundary at the same place and both consult the keys.

func init() {
	Register(&Rule{ID: "GROWSHRINK", Props: []string{"C04"}, Min: 3,
		Doc: "(1) with s the size after the operation, Insert grows when s ≥ growAfterSize + cg and Delete shrinks when s ≤ shrinkBelowSize + cs (each normalised from the comparison in the loop test and from whether Mast.size is updated before or after that test); since growAfterSize at height h is shrinkBelowSize at height h+1, the boundaries coincide only if cs = cg − 1 (a tree that grew at s must shrink again at s−1). (2) Insert's growth loop consults the root's keys (the growth test); Delete's shrink loop also consults them (a test of the number of keys in the root): a top layer without keys must go even when the size allows the height.",
		Run: runGROWSHRINK})
}

func runGROWSHRINK(c *Ctx) {
	P := c.P
	ins, del := c.MustFunc("(*Mast).Insert"), c.MustFunc("(*Mast).Delete")
	grow, shrink := c.MustFunc("(*Mast).grow"), c.MustFunc("(*Mast).shrink")
	if ins == nil || del == nil || grow == nil || shrink == nil {
		return
	}
	type bound struct {
		c   int64
		at  ssa.Instruction
		txt string
	}
	// the call of target reachable from entry, and the function holding it
	holderOf := func(entry, target *ssa.Function) (*ssa.Function, ssa.CallInstruction) {
		reach := c.Facts.Reach(entry)
		for _, cs := range P.Callers[target] {
			h := cs.Parent()
			if reach[ir.Outermost(h)] && h != target {
				return h, cs
			}
		}
		return nil, nil
	}
	// predicate helper behind a condition: `m.needsShrink()`, `ok, err := m.shouldGrow(n)` (result #0)
	predicate := func(cond ssa.Value) *ssa.Function {
		var call *ssa.Call
		switch x := cond.(type) {
		case *ssa.Call:
			call = x
		case *ssa.Extract:
			if x.Index == 0 {
				call, _ = x.Tuple.(*ssa.Call)
			}
		}
		if call == nil {
			return nil
		}
		h := ir.Callee(call.Call)
		if h == nil || h.Blocks == nil || !isOwn(P, h) {
			return nil
		}
		if rs := h.Signature.Results(); rs.Len() == 0 {
			return nil
		} else if bt, ok := rs.At(0).Type().Underlying().(*types.Basic); !ok || bt.Kind() != types.Bool {
			return nil
		}
		return h
	}
	// returns of a predicate that can yield `true` (with a nil error, if it has an error result)
	trueReturns := func(h *ssa.Function) []*ssa.Return {
		var out []*ssa.Return
		ei := ir.ErrorResultIndex(h.Signature)
		for _, r := range ir.Returns(h) {
			if ei >= 0 && !ir.IsNilConst(r.Results[ei]) {
				continue
			}
			if v, isC := ir.ConstBool(ir.ResolveCell(r.Results[0])); isC && !v {
				continue
			}
			out = append(out, r)
		}
		return out
	}
	// necessary conditions of tcall: facts that hold whenever it runs (through predicate helpers: what holds on
	// every return of the helper that can say true)
	var necessary func(facts []ir.Fact, depth int) []ir.Fact
	necessary = func(facts []ir.Fact, depth int) []ir.Fact {
		out := append([]ir.Fact(nil), facts...)
		if depth > 2 {
			return out
		}
		for _, f := range facts {
			h := predicate(f.Cond)
			if h == nil || !f.Truth {
				continue
			}
			type fk struct {
				s string
				t bool
			}
			var common map[fk]ir.Fact
			for _, r := range trueReturns(h) {
				fs := ir.FactsAt(r.Block())
				rv := ir.ResolveCell(r.Results[0])
				if _, isC := ir.ConstBool(rv); !isC {
					fs = append(fs, ir.ExpandFacts([]ir.Fact{{Cond: rv, Truth: true, From: r.Block()}})...)
				}
				fs = necessary(fs, depth+1)
				cur := map[fk]ir.Fact{}
				for _, x := range fs {
					cur[fk{ir.Sym(x.Cond), x.Truth}] = x
				}
				if common == nil {
					common = cur
				} else {
					for k := range common {
						if _, ok := cur[k]; !ok {
							delete(common, k)
						}
					}
				}
			}
			for _, x := range common {
				out = append(out, x)
			}
		}
		return out
	}
	// sufficient conditions of tcall (shrinking is a disjunction): outcomes of a test from which the call, or a
	// `return true` of the predicate that guards it, is reached without a further test
	sufficient := func(holder *ssa.Function, tcall ssa.Instruction) []ir.Fact {
		var out []ir.Fact
		// cameFrom: on the straight line being followed, the predecessor each block was entered from (to read φs)
		var cameFrom map[*ssa.BasicBlock]*ssa.BasicBlock
		scan := func(fn *ssa.Function, goal func(b *ssa.BasicBlock, from *ssa.BasicBlock) bool) {
			for _, b := range fn.Blocks {
				if len(b.Instrs) == 0 || ir.IsDead(b) {
					continue
				}
				iff, ok := b.Instrs[len(b.Instrs)-1].(*ssa.If)
				if !ok {
					continue
				}
				for i, sb := range b.Succs {
					prev := b
					cameFrom = map[*ssa.BasicBlock]*ssa.BasicBlock{sb: prev}
					for n := 0; !goal(sb, prev) && len(sb.Succs) == 1 && n < 8; n++ {
						prev, sb = sb, sb.Succs[0]
						cameFrom[sb] = prev
					}
					if goal(sb, prev) {
						out = append(out, ir.Fact{Cond: iff.Cond, Truth: i == 0, From: b})
					}
				}
			}
		}
		scan(holder, func(b, _ *ssa.BasicBlock) bool { return b == tcall.Block() })
		for _, f := range ir.FactsAt(tcall.Block()) {
			h := predicate(f.Cond)
			if h == nil || !f.Truth {
				continue
			}
			scan(h, func(b, from *ssa.BasicBlock) bool {
				if len(b.Instrs) == 0 {
					return false
				}
				r, isRet := b.Instrs[len(b.Instrs)-1].(*ssa.Return)
				if !isRet {
					return false
				}
				rv := r.Results[0]
				// `a && (b || c)` is a φ of φs: each is read on the edge the straight line came in by
				for d := 0; d < 4; d++ {
					phi, isPhi := rv.(*ssa.Phi)
					if !isPhi {
						break
					}
					pb := phi.Block()
					fr := cameFrom[pb]
					if pb == b {
						fr = from
					}
					next := ssa.Value(nil)
					for pi, p := range pb.Preds {
						if p == fr {
							next = phi.Edges[pi]
						}
					}
					if next == nil {
						break
					}
					rv = next
				}
				v, isC := ir.ConstBool(ir.ResolveCell(rv))
				return isC && v
			})
			// an alternative that is returned as a value rather than branched on (`… || m.rootIsKeyless()`): the
			// non-constant leaves of the φ tree the predicate returns
			var leaves func(v ssa.Value, from *ssa.BasicBlock, d int)
			leaves = func(v ssa.Value, from *ssa.BasicBlock, d int) {
				if phi, ok := v.(*ssa.Phi); ok && d < 4 {
					for pi, e := range phi.Edges {
						leaves(e, phi.Block().Preds[pi], d+1)
					}
					return
				}
				if _, isC := ir.ConstBool(ir.ResolveCell(v)); isC || from == nil {
					return
				}
				out = append(out, ir.Fact{Cond: v, Truth: true, From: from})
			}
			for _, r := range ir.Returns(h) {
				if len(r.Results) > 0 {
					if _, isPhi := r.Results[0].(*ssa.Phi); isPhi {
						leaves(r.Results[0], nil, 0)
					}
				}
			}
		}
		return out
	}
	find := func(entry, target *ssa.Function, thresh string, lower bool) (*bound, bool) {
		holder, tcs := holderOf(entry, target)
		if holder == nil {
			c.AnchorMissing("call of " + target.Name() + " reachable from " + ir.FuncName(entry))
			return nil, false
		}
		tcall := tcs.(ssa.Instruction)
		var facts []ir.Fact
		if lower {
			facts = necessary(ir.FactsAt(tcall.Block()), 0)
		} else {
			// shrinking is a disjunction (size at the threshold OR a keyless top layer): the size test has to be
			// sufficient on its own. A test that is merely necessary (`size <= T && keyless`) leaves trees too tall.
			// An outcome is sufficient by itself when the test is reached under nothing but the height guard and
			// the failed alternatives of the same disjunction.
			suff := sufficient(holder, tcall)
			isHeight := func(v ssa.Value) bool {
				bin, ok := v.(*ssa.BinOp)
				return ok && (mastFieldLoad(bin.X, "height") || mastFieldLoad(bin.Y, "height"))
			}
			for _, f := range suff {
				alone := true
				for _, g := range ir.FactsAt(f.From) {
					if g.From == nil || (g.From.Parent() == holder && inCycle(tcall.Block()) && !inCycle(g.From)) {
						continue // established in front of the loop
					}
					if isHeight(g.Cond) {
						continue
					}
					alt := false
					for _, o := range suff {
						if o.Cond == g.Cond && o.Truth != g.Truth {
							alt = true
						}
					}
					if !alt {
						alone = false
					}
				}
				if alone {
					facts = append(facts, f)
				}
			}
		}
		for _, f := range facts {
			bin, ok := f.Cond.(*ssa.BinOp)
			if !ok {
				continue
			}
			op := bin.Op
			var sizeV ssa.Value
			switch {
			case mastFieldLoad(bin.X, "size") && mastFieldLoad(bin.Y, thresh):
				sizeV = bin.X
			case mastFieldLoad(bin.Y, "size") && mastFieldLoad(bin.X, thresh):
				sizeV = bin.Y
				switch op {
				case token.LSS:
					op = token.GTR
				case token.GTR:
					op = token.LSS
				case token.LEQ:
					op = token.GEQ
				case token.GEQ:
					op = token.LEQ
				}
			default:
				continue
			}
			if !f.Truth {
				switch op {
				case token.LSS:
					op = token.GEQ
				case token.GEQ:
					op = token.LSS
				case token.LEQ:
					op = token.GTR
				case token.GTR:
					op = token.LEQ
				default:
					continue
				}
			}
			// both operands are read afresh on every pass: the body of the loop changes the thresholds (and, in
			// Delete, follows a size update), so a value hoisted in front of the loop is stale from the second pass on
			if inCycle(tcall.Block()) {
				staleOp := ""
				for _, o := range []ssa.Value{bin.X, bin.Y} {
					if li, isI := ir.ResolveCell(o).(ssa.Instruction); isI && li.Parent() == holder && !inCycle(li.Block()) {
						staleOp = pathDesc(ir.Sym(o))
					}
				}
				if staleOp != "" {
					c.Violation(entry, P.InstrPos(bin), "height loop tests a value read before the loop",
						staleOp+" is read once in front of the loop although each pass changes the thresholds: from the second pass on the test compares with the old threshold and the tree gains or loses the wrong number of levels")
					return nil, false
				}
			}
			// does the test see the size before or after this operation's own update? Both are located in the
			// entry point: the update store, and the instruction through which the test is reached
			ld, _ := ir.ResolveCell(sizeV).(*ssa.UnOp)
			var upd *ssa.Store
			for _, b := range entry.Blocks {
				for _, in := range b.Instrs {
					if _, fld, st, ok := mastFieldStore(in); ok && fld == "size" {
						upd = st
					}
				}
			}
			if upd == nil || ld == nil {
				c.Undecided(entry, P.InstrPos(tcall), "size update", "cannot relate the size test to the update of Mast.size in "+ir.FuncName(entry))
				return nil, false
			}
			var at ssa.Instruction = ld
			if ld.Parent() != entry {
				at = nil
				for _, ci := range CallsOf(entry) {
					for _, g := range c.Facts.Callees(ci) {
						if g == ld.Parent() || c.Facts.Reach(g)[ld.Parent()] {
							at = ci
						}
					}
				}
				if at == nil {
					c.Undecided(entry, P.InstrPos(ld), "size test not reached from the entry point", "the test of Mast.size sits in "+ir.FuncName(ld.Parent())+", which "+ir.FuncName(entry)+" does not call")
					return nil, false
				}
			}
			after := ir.InstrReaches(upd, at)
			before := ir.InstrReaches(at, upd)
			if after == before {
				c.Undecided(entry, P.InstrPos(ld), "size test both before and after the size update", "the test of Mast.size can run on either side of the update")
				return nil, false
			}
			d := int64(0)
			if before {
				if lower {
					d = -1 // Insert: tested value = s - 1
				} else {
					d = +1 // Delete: tested value = s + 1
				}
			}
			var cc int64
			if lower {
				switch op {
				case token.GEQ: // s + d ≥ T
					cc = -d
				case token.GTR:
					cc = -d + 1
				default:
					c.Violation(entry, P.InstrPos(bin), "growth is not conditioned on the size reaching the threshold", "comparison "+op.String()+" between size and "+thresh)
					return nil, false
				}
			} else {
				switch op {
				case token.LEQ: // s + d ≤ T
					cc = -d
				case token.LSS:
					cc = -d - 1
				default:
					continue // not the shrinking outcome of this test
				}
			}
			when := "after"
			if before {
				when = "before"
			}
			return &bound{cc, bin, fmt.Sprintf("size %s %s, tested %s the size update", op, thresh, when)}, true
		}
		c.Violation(entry, P.InstrPos(tcall), target.Name()+" not conditioned on the size threshold", "the call of "+target.Name()+" (in "+ir.FuncName(holder)+") is not governed by a comparison of Mast.size with Mast."+thresh)
		return nil, false
	}
	g, ok1 := find(ins, grow, "growAfterSize", true)
	s, ok2 := find(del, shrink, "shrinkBelowSize", false)
	if ok1 && ok2 {
		if s.c == g.c-1 {
			c.OK(P.InstrPos(s.at), "size boundary of grow and shrink", fmt.Sprintf("grow when s ≥ growAfterSize%+d (%s); shrink when s ≤ shrinkBelowSize%+d (%s): adjacent", g.c, g.txt, s.c, s.txt), false)
		} else {
			c.Violation(del, P.InstrPos(s.at), "grow and shrink put the size boundary at different places",
				fmt.Sprintf("Insert grows when the new size s ≥ growAfterSize%+d (%s), Delete shrinks when the new size s ≤ shrinkBelowSize%+d (%s); growAfterSize at height h equals shrinkBelowSize at height h+1, so a tree that has exactly that many entries has a different height depending on whether it got there by inserting or by deleting: equal contents, different roots", g.c, g.txt, s.c, s.txt))
		}
	}
	// (2) both loops consult the root's keys
	stale := ""
	consults := func(entry, target *ssa.Function, needFresh bool) (bool, string) {
		holder, tcs := holderOf(entry, target)
		if holder == nil {
			return false, ""
		}
		fn := holder
		tcall := tcs.(ssa.Instruction)
		var keyTest func(cond ssa.Value, d int) (bool, string)
		keyTest = func(cond ssa.Value, d int) (bool, string) {
			if d > 4 {
				return false, ""
			}
			switch x := cond.(type) {
			case *ssa.UnOp:
				if x.Op == token.NOT {
					return keyTest(x.X, d)
				}
			case *ssa.BinOp:
				for _, o := range []ssa.Value{x.X, x.Y} {
					if call, ok := o.(*ssa.Call); ok {
						if b, ok := call.Call.Value.(*ssa.Builtin); ok && b.Name() == "len" {
							if base, f, ok := nodeSliceRoot(call.Call.Args[0]); ok && f == "Key" {
								// the node looked at must be the *current* root: the loop body replaces the root, so a
								// node picked up before the loop is the old one from the second pass on
								if needFresh {
									if bi, isI := ir.ResolveCell(base).(ssa.Instruction); isI && bi.Parent() == fn && !inCycle(bi.Block()) {
										stale = "the node whose keys are counted (" + pathDesc(ir.Sym(base)) + ") is read once before the loop, but the loop body installs a new root"
										continue
									}
								}
								return true, "len(node.Key)"
							}
						}
					}
				}
			case *ssa.Extract:
				if call, ok := x.Tuple.(*ssa.Call); ok {
					return keyTest(call, d)
				}
			case *ssa.Call:
				h := ir.Callee(x.Call)
				if h == nil || h.Blocks == nil || !isOwn(c.P, h) {
					return false, ""
				}
				if d > 3 {
					return false, ""
				}
				// a (bool[, error]) helper that looks at a node's keys: ranges over / measures node.Key
				for _, b := range h.Blocks {
					for _, in := range b.Instrs {
						switch y := in.(type) {
						case *ssa.Call:
							if bi, ok := y.Call.Value.(*ssa.Builtin); ok && bi.Name() == "len" {
								if _, f, ok := nodeSliceRoot(y.Call.Args[0]); ok && f == "Key" {
									return true, h.Name() + " (measures node.Key)"
								}
							}
							if ok, how := keyTest(y, d+1); ok {
								return true, h.Name() + " → " + how
							}
						case *ssa.Range:
							if _, f, ok := nodeSliceRoot(y.X); ok && f == "Key" {
								return true, h.Name() + " (ranges over node.Key)"
							}
						case *ssa.IndexAddr:
							if _, f, ok := nodeSliceRoot(y.X); ok && f == "Key" {
								return true, h.Name() + " (reads node.Key)"
							}
						}
					}
				}
			}
			return false, ""
		}
		// a key test that decides whether the loop goes on to (or stops before) the call
		for _, b := range fn.Blocks {
			if !inCycle(b) || len(b.Instrs) == 0 {
				continue
			}
			iff, ok := b.Instrs[len(b.Instrs)-1].(*ssa.If)
			if !ok {
				continue
			}
			if ok, how := keyTest(iff.Cond, 0); ok && ir.CanReach(b, tcall.Block()) {
				return true, how
			}
		}
		return false, ""
	}
	// (4) growth is decided by the size and by the root's keys — nothing else. Every test inside the loop that the
	// level-adding call depends on is the size test, the key test, an error test or a diagnostic switch; a further
	// conjunct (a memo of "the highest layer seen", a flag) keeps a tree lower than the same entries inserted afresh.
	if holder, tcs := holderOf(ins, grow); holder != nil {
		tcall := tcs.(ssa.Instruction)
		for _, f := range ir.FactsAt(tcall.Block()) {
			if f.From == nil || f.From.Parent() != holder || !inCycle(f.From) {
				continue
			}
			cond := f.Cond
			for {
				u, ok := cond.(*ssa.UnOp)
				if !ok || u.Op != token.NOT {
					break
				}
				cond = u.X
			}
			kind := ""
			if _, _, isNil := ir.NilTest(cond); isNil {
				kind = "an error / nil test"
			} else if v, known := debugCond(cond); known || v {
				kind = "a diagnostic switch"
			} else if bin, ok := cond.(*ssa.BinOp); ok {
				sz := func(v ssa.Value) bool { return mastFieldLoad(v, "size") }
				th := func(v ssa.Value) bool { return mastFieldLoad(v, "growAfterSize") }
				if (sz(bin.X) && th(bin.Y)) || (sz(bin.Y) && th(bin.X)) {
					kind = "the size test"
				}
			}
			if kind == "" {
				if h := predicate(cond); h != nil && measuresKeys(c, h, 0) {
					kind = "the key test"
					// the key test answers "no key of the root belongs above the height" only after it has looked at
					// every key: a `false` handed back on any other condition (a root with a single entry "cannot be
					// spread over two levels") keeps a tree lower than its contents require
					// (a wrapper — shouldGrow → canGrow — is looked through: the function that looks at the keys is judged)
					for d := 0; d < 2 && !measuresKeys(c, h, 2); d++ {
						var next *ssa.Function
						for _, ci := range CallsOf(h) {
							if g := ir.Callee(ci.Common()); g != nil && isOwn(c.P, g) && measuresKeys(c, g, 1) {
								next = g
							}
						}
						if next == nil {
							break
						}
						h = next
					}
					hei := ir.ErrorResultIndex(h.Signature)
					for _, r := range ir.Returns(h) {
						if !measuresKeys(c, h, 2) {
							break
						}
						if hei >= 0 && hei < len(r.Results) && !ir.IsNilConst(r.Results[hei]) {
							continue
						}
						if v, isC := ir.ConstBool(ir.ResolveCell(r.Results[0])); !isC || v {
							continue
						}
						done := ir.FlowFact(r, func(fc ir.Fact) bool {
							bin, ok := fc.Cond.(*ssa.BinOp)
							if !ok || bin.Op != token.LSS || fc.Truth {
								return false
							}
							_, _, isLen := lenOfNodeSlice(bin.Y)
							return isLen
						}, func(ssa.Instruction) bool { return false })
						if done {
							c.OK(P.InstrPos(r), "'no growth' answer of "+ir.FuncName(h), "given only after the loop over the root's keys has run to its end", false)
						} else {
							c.Violation(h, P.InstrPos(r), "growth test answers 'no' without having looked at every key",
								"the growth test returns false on a path that does not come out of the loop over the root's keys: a key that belongs above the current height is overlooked, the tree stays lower than the same entries inserted afresh, and equal contents persist under different roots")
						}
					}
				}
			}
			pos := P.InstrPos(f.From.Instrs[len(f.From.Instrs)-1])
			if kind != "" {
				c.OK(pos, "growth loop test "+pathDesc(ir.Sym(cond)), kind, true)
				continue
			}
			c.Violation(ins, pos, "growth conditioned on something besides size and root keys",
				"the level-adding call also depends on "+pathDesc(ir.Sym(cond))+": the height rule is min(highest key layer, size rule), decided from the size and the root's keys alone — an extra condition (a remembered maximum layer, a flag) that a reloaded or differently built tree does not share leaves equal contents at different heights, hence under different roots")
		}
	}
	// (3) what the shrink loop asks about the root's keys is "are there none": among the outcomes that are sufficient
	// for the level-removing call, the one that looks at the number of keys holds only when that number is 0
	if holder, tcs := holderOf(del, shrink); holder != nil {
		tcall := tcs.(ssa.Instruction)
		for _, f := range sufficient(holder, tcall) {
			for _, g := range necessary([]ir.Fact{f}, 0) {
				bin, ok := g.Cond.(*ssa.BinOp)
				if !ok {
					continue
				}
				var k int64
				var isK, lenLeft bool
				for side, o := range []ssa.Value{bin.X, bin.Y} {
					call, isCall := o.(*ssa.Call)
					if !isCall {
						continue
					}
					if bi, isB := call.Call.Value.(*ssa.Builtin); !isB || bi.Name() != "len" {
						continue
					}
					if _, fld, ok := nodeSliceRoot(call.Call.Args[0]); !ok || fld != "Key" {
						continue
					}
					other := bin.Y
					if side == 1 {
						other = bin.X
					}
					k, isK = ir.ConstInt(other)
					lenLeft = side == 0
				}
				if !isK {
					continue
				}
				op := bin.Op
				if !lenLeft {
					switch op {
					case token.LSS:
						op = token.GTR
					case token.GTR:
						op = token.LSS
					case token.LEQ:
						op = token.GEQ
					case token.GEQ:
						op = token.LEQ
					}
				}
				if !g.Truth {
					switch op {
					case token.LSS:
						op = token.GEQ
					case token.GEQ:
						op = token.LSS
					case token.LEQ:
						op = token.GTR
					case token.GTR:
						op = token.LEQ
					case token.EQL:
						op = token.NEQ
					case token.NEQ:
						op = token.EQL
					}
				}
				keyless := (op == token.EQL && k == 0) || (op == token.LEQ && k == 0) || (op == token.LSS && k == 1)
				if keyless {
					c.OK(P.InstrPos(bin), "Delete shrinks when the top layer has no key", "len(root.Key) "+op.String()+" "+fmt.Sprint(k)+" is sufficient for the level-removing call", false)
				} else {
					c.Violation(del, P.InstrPos(bin), "shrink loop's key test is not 'the root has no key'",
						fmt.Sprintf("the level-removing call is reached when len(root.Key) %s %d: a level is removed although the top layer still has keys (or kept although it has none), so the height after deletions differs from the height of a tree built from the same entries — equal contents, different roots", op, k))
				}
			}
		}
	}
	if ok, how := consults(ins, grow, false); ok {
		c.OK(P.Pos(ins.Pos()), "Insert's growth loop consults the root's keys", how, false)
	} else {
		c.Violation(ins, P.Pos(ins.Pos()), "growth decided by size alone", "Insert's growth loop no longer asks whether a root key belongs above the current height")
	}
	if ok, how := consults(del, shrink, true); ok {
		c.OK(P.Pos(del.Pos()), "Delete's shrink loop consults the root's keys", how, false)
	} else if stale != "" {
		c.Violation(del, P.Pos(del.Pos()), "shrink loop looks at a stale root",
			stale+": after the first level is removed the test still sees the old top node, so one key-less level makes the loop remove every level (or none) — equal contents, different roots")
	} else {
		c.Violation(del, P.Pos(del.Pos()), "shrinking decided by size alone",
			"Insert raises the height only when a root key belongs higher (height = min(highest key layer, size rule)), but Delete lowers it only by size: after the last key of the top layer is deleted the tree keeps a key-less root and its height, while a tree built from the same entries is one level lower — equal contents, different roots")
	}
}

func firstCallOf(v ssa.Value) ssa.CallInstruction {
	switch x := v.(type) {
	case *ssa.Call:
		return x
	case *ssa.Extract:
		if c, ok := x.Tuple.(*ssa.Call); ok {
			return c
		}
	}
	return nil
}

// measuresKeys: h (or a repository function it calls, two levels down) ranges over, measures or reads a node's Key list.
func measuresKeys(c *Ctx, h *ssa.Function, d int) bool {
	if h == nil || h.Blocks == nil || d > 2 {
		return false
	}
	for _, b := range h.Blocks {
		for _, in := range b.Instrs {
			switch y := in.(type) {
			case *ssa.Range:
				if _, fld, ok := nodeSliceRoot(y.X); ok && fld == "Key" {
					return true
				}
			case *ssa.IndexAddr:
				if _, fld, ok := nodeSliceRoot(y.X); ok && fld == "Key" {
					return true
				}
			case *ssa.Call:
				if bi, ok := y.Call.Value.(*ssa.Builtin); ok && bi.Name() == "len" {
					if _, fld, ok := nodeSliceRoot(y.Call.Args[0]); ok && fld == "Key" {
						return true
					}
				}
				if g := ir.Callee(y.Call); g != nil && isOwn(c.P, g) && measuresKeys(c, g, d+1) {
					return true
				}
			}
		}
	}
	return false
}
