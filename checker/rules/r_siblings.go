package rules

import (
	"fmt"
	"go/token"
	"go/types"
	"sort"
	"strings"

	"golang.org/x/tools/go/ssa"

	"mastcheck/ir"
)

// Sibling agreement (Engler et al.: implementations of the same thing must
// agree): the tree search exists twice — (*mastNode).findNode for point
// operations and (*Cursor).search1 for cursors — and Key/Value are always
// sliced in parallel.

func init() {
	Register(&Rule{ID: "SEARCHSIBLINGS", Props: []string{"C01", "C10"}, Min: 1,
		Doc: "the two copies of the in-node key search (findNode, used by Get/Insert/Delete/SeekIter, and Cursor.search1, used by Ceil) agree on their comparison skeleton: " +
			"the same argument order in every keyOrder call (probe key first, node key second, at the same index class) and the same set of tests on each comparison result.",
		Run: runSEARCHSIBLINGS})
	Register(&Rule{ID: "PARSLICE", Props: []string{"C09", "C01", "C04"}, Min: 4,
		Doc: "Key and Value of a node are sliced in parallel: within a function, the set of (low, high) bounds applied to a node's Key slice equals the set applied to the same node's Value slice.",
		Run: runPARSLICE})
}

// searchSkeleton describes every key comparison of fn and its closures.
func searchSkeleton(c *Ctx, fn *ssa.Function) []string {
	var out []string
	// the function, its closures, and the helpers it calls directly (a shared search helper makes the
	// two siblings agree by construction)
	seenF := map[*ssa.Function]bool{}
	var fns []*ssa.Function
	var add func(f *ssa.Function, depth int)
	add = func(f *ssa.Function, depth int) {
		if f == nil || seenF[f] || f.Blocks == nil {
			return
		}
		seenF[f] = true
		fns = append(fns, f)
		for _, a := range f.AnonFuncs {
			add(a, depth)
		}
		if depth < 2 {
			for _, ci := range CallsOf(f) {
				if sc := ir.Callee(ci.Common()); sc != nil && sc != fn && sc.Pkg == fn.Pkg && sc.Name() != fn.Name() && !c.Facts.MayLoad[sc] {
					add(sc, depth+1)
				}
			}
		}
	}
	add(fn, 0)
	for _, f := range fns {
		for _, ci := range CallsOf(f) {
			call, ok := ci.(*ssa.Call)
			if !ok || !isKeyCompareCall(call) {
				continue
			}
			var args []string
			for _, a := range call.Call.Args {
				args = append(args, keyArgClass(a))
			}
			// tests on the comparison result (through the cell go/ssa creates for captured cmp)
			tests := map[string]bool{}
			var res ssa.Value
			if call.Referrers() != nil {
				for _, r := range *call.Referrers() {
					if ex, ok := r.(*ssa.Extract); ok && ex.Index == 0 {
						res = ex
					}
				}
			}
			if res != nil {
				collectCmpTests(res, tests, map[ssa.Value]bool{})
			}
			var ts []string
			for t := range tests {
				ts = append(ts, t)
			}
			sort.Strings(ts)
			out = append(out, fmt.Sprintf("keyOrder(%s) tested %s", strings.Join(args, ", "), strings.Join(ts, " ")))
		}
	}
	sort.Strings(out)
	return out
}

func keyArgClass(a ssa.Value) string {
	a = ir.Strip(ir.ResolveCell(a))
	switch x := a.(type) {
	case *ssa.Parameter:
		return "probe"
	case *ssa.FreeVar:
		return "probe"
	case *ssa.UnOp:
		if x.Op == token.MUL {
			if ia, ok := x.X.(*ssa.IndexAddr); ok {
				// an element of the node's key list (directly, or of a slice parameter it was passed as)
				idx := "i"
				if b, ok := ia.Index.(*ssa.BinOp); ok {
					if k, isK := ir.ConstInt(b.Y); isK {
						idx = fmt.Sprintf("i%s%d", b.Op, k)
					}
				}
				return "keys[" + idx + "]"
			}
			if _, ok := x.X.(*ssa.FreeVar); ok {
				return "probe"
			}
		}
	}
	return "other"
}

// collectCmpTests finds comparisons of v (or of a variable it is stored into)
// against integer constants.
func collectCmpTests(v ssa.Value, tests map[string]bool, seen map[ssa.Value]bool) {
	if seen[v] || v.Referrers() == nil {
		return
	}
	seen[v] = true
	for _, r := range *v.Referrers() {
		switch x := r.(type) {
		case *ssa.BinOp:
			// relational tests steer the search; ==/!= are uses of its outcome and differ legitimately
			if k, isK := ir.ConstInt(x.Y); isK && x.X == v && x.Op != token.EQL && x.Op != token.NEQ {
				tests[fmt.Sprintf("%s%d", x.Op, k)] = true
			}
		case *ssa.Phi:
			collectCmpTests(x, tests, seen)
		case *ssa.Store:
			// cmp is a captured variable: every load of the cell
			// only the loads this assignment reaches inside its own function
			if cell := ir.CellOf(x.Addr); cell != nil && x.Val == v {
				forEachCellLoad(cell, func(ld *ssa.UnOp) {
					if ld.Parent() == x.Parent() && ir.InstrReaches(x, ld) {
						collectCmpTests(ld, tests, seen)
					}
				})
			}
		}
	}
}

func forEachCellLoad(cell *ssa.Alloc, f func(*ssa.UnOp)) {
	var visit func(v ssa.Value)
	visit = func(v ssa.Value) {
		if v.Referrers() == nil {
			return
		}
		for _, r := range *v.Referrers() {
			switch y := r.(type) {
			case *ssa.UnOp:
				if y.Op == token.MUL {
					f(y)
				}
			case *ssa.MakeClosure:
				cf := y.Fn.(*ssa.Function)
				for i, b := range y.Bindings {
					if b == v {
						visit(cf.FreeVars[i])
					}
				}
			}
		}
	}
	visit(cell)
}

func runSEARCHSIBLINGS(c *Ctx) {
	P := c.P
	a := c.MustFunc("(*mastNode).findNode")
	b := c.MustFunc("(*Cursor).search1")
	if a == nil || b == nil {
		return
	}
	sa, sb := searchSkeleton(c, a), searchSkeleton(c, b)
	if len(sa) == 0 || len(sb) == 0 {
		c.Undecided(a, P.Pos(a.Pos()), "no key comparisons found", "cannot extract the comparison skeleton of the in-node search")
		return
	}
	if strings.Join(sa, "; ") == strings.Join(sb, "; ") {
		c.OK(P.Pos(a.Pos()), "findNode and Cursor.search1 agree", strings.Join(sa, "; "), false)
		return
	}
	c.Violation(nil, P.Pos(b.Pos()), "in-node search differs between findNode and Cursor.search1",
		fmt.Sprintf("the two copies of the same search disagree — findNode: {%s}; search1: {%s}: one of them locates keys differently (point lookups and cursor seeks would disagree about where a key is)", strings.Join(sa, "; "), strings.Join(sb, "; ")))
}

func runPARSLICE(c *Ctx) {
	P := c.P
	type key struct {
		fn   *ssa.Function
		base string
	}
	bounds := map[key]map[string]map[string]ssa.Instruction{}
	for _, fn := range P.Funcs {
		if fn.Pkg.Pkg.Path() != ir.MastPath {
			continue
		}
		for _, b := range fn.Blocks {
			for _, ins := range b.Instrs {
				// a slice helper applied to node.Key / node.Value (removeAt(node.Key, i)): the integer
				// arguments are the "bounds" that both calls must agree on
				if call, isCall := ins.(*ssa.Call); isCall {
					if callee := ir.Callee(call.Call); callee != nil && callee.Blocks != nil && callee.Pkg != nil {
						for ai, a := range call.Call.Args {
							base, f, ok := nodeSliceRoot(a)
							if !ok || (f != "Key" && f != "Value") {
								continue
							}
							if _, isSlice := a.Type().Underlying().(*types.Slice); !isSlice {
								continue
							}
							// only slice→slice helpers (insertAt, removeAt) reshape the list; a search over the keys does not
							if rs := callee.Signature.Results(); rs.Len() != 1 || !types.Identical(call.Type(), a.Type()) {
								continue
							}
							sig := callee.Name() + "("
							for aj, o := range call.Call.Args {
								if aj == ai {
									sig += "_,"
								} else if bt, ok := o.Type().Underlying().(*types.Basic); ok && bt.Info()&types.IsInteger != 0 {
									sig += pathDesc(ir.Sym(o)) + ","
								} else {
									sig += "·,"
								}
							}
							sig += ")"
							k := key{fn, ir.Sym(ir.ResolveCell(base))}
							if bounds[k] == nil {
								bounds[k] = map[string]map[string]ssa.Instruction{"Key": {}, "Value": {}}
							}
							bounds[k][f][sig] = call
						}
					}
					continue
				}
				sl, ok := ins.(*ssa.Slice)
				if !ok {
					continue
				}
				base, f, ok := nodeSliceRoot(sl.X)
				if !ok || (f != "Key" && f != "Value") {
					continue
				}
				if _, isSl := sl.X.(*ssa.Slice); isSl {
					continue
				}
				lo, hi := "", ""
				if sl.Low != nil {
					lo = pathDesc(ir.Sym(sl.Low))
				}
				if sl.High != nil {
					hi = pathDesc(ir.Sym(sl.High))
				}
				k := key{fn, ir.Sym(ir.ResolveCell(base))}
				if bounds[k] == nil {
					bounds[k] = map[string]map[string]ssa.Instruction{"Key": {}, "Value": {}}
				}
				bounds[k][f]["["+lo+":"+hi+"]"] = sl
			}
		}
	}
	var ks []key
	for k := range bounds {
		ks = append(ks, k)
	}
	sort.Slice(ks, func(i, j int) bool {
		if ks[i].fn.Pos() != ks[j].fn.Pos() {
			return ks[i].fn.Pos() < ks[j].fn.Pos()
		}
		return ks[i].base < ks[j].base
	})
	for _, k := range ks {
		kb, vb := bounds[k]["Key"], bounds[k]["Value"]
		var onlyK, onlyV []string
		var at ssa.Instruction
		for b, i := range kb {
			if vb[b] == nil {
				onlyK = append(onlyK, b)
				at = i
			}
		}
		for b, i := range vb {
			if kb[b] == nil {
				onlyV = append(onlyV, b)
				at = i
			}
		}
		what := fmt.Sprintf("slices of %s.Key / .Value in %s", pathDesc(k.base), ir.FuncName(k.fn))
		if len(onlyK) == 0 && len(onlyV) == 0 {
			var bs []string
			for b := range kb {
				bs = append(bs, b)
			}
			sort.Strings(bs)
			var first ssa.Instruction
			for _, i := range kb {
				if first == nil || i.Pos() < first.Pos() {
					first = i
				}
			}
			c.OK(P.InstrPos(first), what, "same bounds on both: "+strings.Join(bs, " "), false)
			continue
		}
		sort.Strings(onlyK)
		sort.Strings(onlyV)
		c.Violation(k.fn, P.InstrPos(at), "Key and Value of "+pathDesc(k.base)+" sliced with different bounds",
			fmt.Sprintf("Key only: %v, Value only: %v — entries would pair keys with the values of other keys", onlyK, onlyV))
	}
}

// isKeyCompareCall: a call through a function value of the KeyCompare shape,
// func(_, _ interface{}) (int, error).
func isKeyCompareCall(call *ssa.Call) bool {
	if call.Call.IsInvoke() || ir.Callee(call.Call) != nil {
		return false
	}
	sig := call.Call.Signature()
	if sig.Params().Len() != 2 || sig.Results().Len() != 2 {
		return false
	}
	for i := 0; i < 2; i++ {
		it, ok := sig.Params().At(i).Type().Underlying().(*types.Interface)
		if !ok || it.NumMethods() != 0 {
			return false
		}
	}
	b, ok := sig.Results().At(0).Type().Underlying().(*types.Basic)
	return ok && b.Kind() == types.Int && ir.IsErrorType(sig.Results().At(1).Type())
}

// ---- KEYOPAQUE -----------------------------------------------------------------------------

func init() {
	Register(&Rule{ID: "KEYOPAQUE", Props: []string{"C01"}, Min: 1,
		Doc: "the tree logic is parametric in the key and value types: outside the default comparator/layer functions no function type-asserts, type-switches on or converts a user key or value — they are only handed to the key order, the layer function, the marshalers, DeepEqual and formatting. " +
			"This is what lets one argument cover every key and value type the property quantifies over.",
		Run: runKEYOPAQUE})
}

func runKEYOPAQUE(c *Ctx) {
	P := c.P
	userParams := userValueParams(c)
	exempt := map[*ssa.Function]bool{}
	for _, name := range []string{"DefaultKeyCompare", "DefaultLayer"} {
		if f := c.P.MastFunc(name); f != nil {
			exempt[f] = true
			for _, a := range allAnon(f) {
				exempt[a] = true
			}
		}
	}
	n := 0
	for _, fn := range P.Funcs {
		if fn.Pkg.Pkg.Path() != ir.MastPath || exempt[fn] {
			continue
		}
		for _, b := range fn.Blocks {
			for _, ins := range b.Instrs {
				ta, ok := ins.(*ssa.TypeAssert)
				if !ok {
					continue
				}
				k, w := provenance(ta.X, userParams, 0)
				if k != provUser {
					continue
				}
				n++
				c.Violation(fn, P.InstrPos(ta), "type assertion on a user key/value ("+w+")",
					"the tree treats keys and values as opaque; special-casing a dynamic type here makes behaviour depend on the key type outside the comparator and layer functions")
			}
		}
	}
	c.OK("-", "type assertions on user keys/values outside the default comparator/layer", fmt.Sprintf("%d found", n), false)
}
