package rules

// Helpers shared by the format-stability (C14) and round-trip (C05) rules:
// value resolution through conversions and package-level variables, path
// evaluation under an assumption (which branch conditions are decided, which
// blocks stay reachable, which phi edges stay live), effective field
// initialisation of a local struct, and small shape predicates.

import (
	"fmt"
	"go/constant"
	"go/token"
	"go/types"
	"reflect"
	"regexp"
	"sort"
	"strings"

	"golang.org/x/tools/go/ssa"

	"mastcheck/ir"
)

// fxStrip removes value-preserving wrappers: cells, interface boxing, type
// changes and conversions.
func fxStrip(v ssa.Value) ssa.Value {
	for i := 0; i < 16; i++ {
		v = ir.ResolveCell(v)
		switch x := v.(type) {
		case *ssa.MakeInterface:
			v = x.X
		case *ssa.ChangeInterface:
			v = x.X
		case *ssa.ChangeType:
			v = x.X
		case *ssa.Convert:
			v = x.X
		default:
			return v
		}
	}
	return v
}

// fxStripNoConv is fxStrip without seeing through Convert.
func fxStripNoConv(v ssa.Value) ssa.Value {
	for i := 0; i < 16; i++ {
		v = ir.ResolveCell(v)
		switch x := v.(type) {
		case *ssa.MakeInterface:
			v = x.X
		case *ssa.ChangeInterface:
			v = x.X
		case *ssa.ChangeType:
			v = x.X
		default:
			return v
		}
	}
	return v
}

// fxConst returns the constant denoted by v through conversions (nil if none
// or if v is the nil constant).
func fxConst(v ssa.Value) constant.Value {
	if c, ok := fxStrip(v).(*ssa.Const); ok {
		return c.Value
	}
	return nil
}

func fxIsIntConst(v ssa.Value, n int64) bool {
	k := fxConst(v)
	return k != nil && k.Kind() == constant.Int && constant.Compare(k, token.EQL, constant.MakeInt64(n))
}

// fxGlobalOf: v (through conversions) is a load of a package-level variable.
func fxGlobalOf(v ssa.Value) *ssa.Global {
	if u, ok := fxStrip(v).(*ssa.UnOp); ok && u.Op == token.MUL {
		if g, ok := u.X.(*ssa.Global); ok {
			return g
		}
	}
	return nil
}

// fxGlobalInit returns the single value stored into package-level variable g:
// the store of the package initialiser, provided no function of the repository
// stores into g as well. ok=false if it cannot be determined.
func fxGlobalInit(P *ir.Program, g *ssa.Global) (val ssa.Value, st *ssa.Store, ok bool) {
	if g == nil || g.Pkg == nil {
		return nil, nil, false
	}
	initFn := g.Pkg.Func("init")
	if initFn == nil {
		return nil, nil, false
	}
	n := 0
	for _, b := range initFn.Blocks {
		for _, ins := range b.Instrs {
			if s, isS := ins.(*ssa.Store); isS && s.Addr == g {
				st = s
				n++
			}
		}
	}
	if n != 1 {
		return nil, nil, false
	}
	for _, fn := range P.Funcs {
		for _, b := range fn.Blocks {
			for _, ins := range b.Instrs {
				if s, isS := ins.(*ssa.Store); isS && s.Addr == g {
					return nil, nil, false
				}
			}
		}
	}
	return st.Val, st, true
}

// fxStringOf resolves v to a string constant: a constant, or a load of a
// package-level variable whose only initialisation is a constant.
func fxStringOf(P *ir.Program, v ssa.Value) (string, bool) {
	if k := fxConst(v); k != nil && k.Kind() == constant.String {
		return constant.StringVal(k), true
	}
	if g := fxGlobalOf(v); g != nil {
		if iv, _, ok := fxGlobalInit(P, g); ok {
			if k := fxConst(iv); k != nil && k.Kind() == constant.String {
				return constant.StringVal(k), true
			}
		}
	}
	return "", false
}

// fxFuncOf resolves v to a function object: a function value, or a load of a
// package-level variable initialised once with a function.
func fxFuncOf(P *ir.Program, v ssa.Value) *ssa.Function {
	s := fxStrip(v)
	if f, ok := s.(*ssa.Function); ok {
		return f
	}
	if g := fxGlobalOf(v); g != nil {
		if iv, _, ok := fxGlobalInit(P, g); ok {
			if f, ok := fxStrip(iv).(*ssa.Function); ok {
				return f
			}
		}
	}
	return nil
}

// fxFullName is "pkgpath.Name" of a package-level function ("" for methods).
func fxFullName(f *ssa.Function) string {
	if f == nil {
		return ""
	}
	if f.Signature.Recv() != nil {
		return f.String()
	}
	if f.Pkg != nil {
		return f.Pkg.Pkg.Path() + "." + f.Name()
	}
	if o := f.Object(); o != nil && o.Pkg() != nil {
		return o.Pkg().Path() + "." + o.Name()
	}
	return f.String()
}

// fxCallee is the statically resolved callee of a call value (nil if dynamic).
func fxCallee(v ssa.Value) (*ssa.Call, *ssa.Function) {
	c, ok := v.(*ssa.Call)
	if !ok {
		return nil, nil
	}
	return c, ir.Callee(c.Call)
}

// fxCallOf sees through `extract #i` and wrappers to the producing call.
func fxCallOf(v ssa.Value) (*ssa.Call, int) {
	v = fxStripNoConv(v)
	if e, ok := v.(*ssa.Extract); ok {
		if c, ok := e.Tuple.(*ssa.Call); ok {
			return c, e.Index
		}
		return nil, -1
	}
	if c, ok := v.(*ssa.Call); ok {
		return c, 0
	}
	return nil, -1
}

// fxFieldLoad decodes a load of a (possibly nested) field: base value and the
// dotted path of field names, embedded fields omitted.
func fxFieldLoad(v ssa.Value) (base ssa.Value, path string, ok bool) {
	v = fxStripNoConv(v)
	switch x := v.(type) {
	case *ssa.UnOp:
		if x.Op != token.MUL {
			return nil, "", false
		}
		return fxFieldAddr(x.X)
	case *ssa.Field:
		b, p, _ := fxFieldLoad(x.X)
		if b == nil {
			b = ir.ResolveCell(x.X)
		}
		return b, fxJoin(p, fxFieldNameOf(x.X.Type(), x.Field)), true
	}
	return nil, "", false
}

// fxFieldAddr decodes an address &base.f1.f2 .
func fxFieldAddr(a ssa.Value) (base ssa.Value, path string, ok bool) {
	fa, isFA := a.(*ssa.FieldAddr)
	if !isFA {
		return nil, "", false
	}
	name := fxFieldNameOf(fa.X.Type(), fa.Field)
	if inner, isInner := fa.X.(*ssa.FieldAddr); isInner {
		b, p, ok2 := fxFieldAddr(inner)
		if !ok2 {
			return nil, "", false
		}
		return b, fxJoin(p, name), true
	}
	return ir.ResolveCell(fa.X), name, true
}

func fxJoin(a, b string) string {
	if a == "" {
		return b
	}
	if b == "" {
		return a
	}
	return a + "." + b
}

// fxFieldNameOf names field i; embedded fields yield "" so that paths do not
// depend on whether the embedded name is spelled.
func fxFieldNameOf(t types.Type, i int) string {
	u := t.Underlying()
	if p, ok := u.(*types.Pointer); ok {
		u = p.Elem().Underlying()
	}
	st, ok := u.(*types.Struct)
	if !ok || i >= st.NumFields() {
		return "?"
	}
	if st.Field(i).Embedded() {
		return ""
	}
	return st.Field(i).Name()
}

// fxParamField: v is (a conversion of) a load of field path of parameter p.
func fxParamField(v ssa.Value) (*ssa.Parameter, string, bool) {
	b, p, ok := fxFieldLoad(fxStrip(v))
	if !ok {
		return nil, "", false
	}
	par, isP := b.(*ssa.Parameter)
	if !isP {
		return nil, "", false
	}
	return par, p, true
}

// ---------------------------------------------------------------------------
// Evaluation under an assumption

// fxAssume decides some branch conditions; everything else stays open.
type fxAssume struct {
	// decide returns the truth of cond if the assumption fixes it.
	decide func(cond ssa.Value) (truth, known bool)
	// relevant marks conditions that concern the subject of the assumption;
	// a relevant but undecided reachable condition makes the result undecided.
	relevant func(cond ssa.Value) bool
}

func (a *fxAssume) eval(cond ssa.Value) (bool, bool) {
	neg := false
	for {
		if b, ok := ir.ConstBool(cond); ok {
			return b != neg, true
		}
		u, ok := cond.(*ssa.UnOp)
		if !ok || u.Op != token.NOT {
			break
		}
		neg = !neg
		cond = u.X
	}
	if a == nil || a.decide == nil {
		return false, false
	}
	t, k := a.decide(cond)
	if !k {
		return false, false
	}
	return t != neg, true
}

// edgeLive reports whether the CFG edge from→to can be taken.
func (a *fxAssume) edgeLive(from, to *ssa.BasicBlock) bool {
	if len(from.Instrs) == 0 {
		return true
	}
	iff, ok := from.Instrs[len(from.Instrs)-1].(*ssa.If)
	if !ok || from.Succs[0] == from.Succs[1] {
		return true
	}
	t, known := a.eval(iff.Cond)
	if !known {
		return true
	}
	if t {
		return to == from.Succs[0]
	}
	return to == from.Succs[1]
}

// reach computes the blocks reachable from `from` under the assumption.
func (a *fxAssume) reach(from *ssa.BasicBlock) map[*ssa.BasicBlock]bool {
	return ir.ReachableFrom(from, func(f, t *ssa.BasicBlock) bool { return !a.edgeLive(f, t) })
}

// open lists reachable relevant conditions the assumption does not decide.
func (a *fxAssume) open(reach map[*ssa.BasicBlock]bool) []ssa.Value {
	var out []ssa.Value
	if a == nil || a.relevant == nil {
		return nil
	}
	for b := range reach {
		if len(b.Instrs) == 0 {
			continue
		}
		iff, ok := b.Instrs[len(b.Instrs)-1].(*ssa.If)
		if !ok {
			continue
		}
		if _, known := a.eval(iff.Cond); known {
			continue
		}
		if a.relevant(iff.Cond) {
			out = append(out, iff.Cond)
		}
	}
	return out
}

// leaves expands phis along live edges from reachable predecessors.
func (a *fxAssume) leaves(v ssa.Value, reach map[*ssa.BasicBlock]bool) []ssa.Value {
	seen := map[ssa.Value]bool{}
	var out []ssa.Value
	var walk func(ssa.Value)
	walk = func(x ssa.Value) {
		if seen[x] {
			return
		}
		seen[x] = true
		// look through wrappers to find phis, but report the wrapped leaf
		inner := fxStripNoConv(x)
		if cv, ok := inner.(*ssa.Convert); ok {
			if _, isPhi := fxStripNoConv(cv.X).(*ssa.Phi); isPhi {
				inner = fxStripNoConv(cv.X)
			}
		}
		phi, ok := inner.(*ssa.Phi)
		if !ok {
			out = append(out, x)
			return
		}
		b := phi.Block()
		for i, e := range phi.Edges {
			p := b.Preds[i]
			if reach != nil && !reach[p] {
				continue
			}
			if !a.edgeLive(p, b) {
				continue
			}
			walk(e)
		}
	}
	walk(v)
	return out
}

// fxSuccessReturns lists the returns of fn whose error result (if the
// signature has one) is the nil constant.
func fxSuccessReturns(fn *ssa.Function) []*ssa.Return {
	ei := ir.ErrorResultIndex(fn.Signature)
	var out []*ssa.Return
	for _, r := range ir.Returns(fn) {
		if ei >= 0 && ei < len(r.Results) && !ir.IsNilConst(r.Results[ei]) {
			continue
		}
		out = append(out, r)
	}
	return out
}

// fxCmpConst evaluates `x op k` / `k op x` for a BinOp with one operand
// satisfying isSubject and the other a constant (resolved by resolve), with
// the subject replaced by val.
func fxCmpConst(bin *ssa.BinOp, isSubject func(ssa.Value) bool, resolve func(ssa.Value) constant.Value, val constant.Value) (bool, bool) {
	switch bin.Op {
	case token.EQL, token.NEQ, token.LSS, token.LEQ, token.GTR, token.GEQ:
	default:
		return false, false
	}
	if isSubject(bin.X) {
		if k := resolve(bin.Y); k != nil && k.Kind() == val.Kind() {
			return constant.Compare(val, bin.Op, k), true
		}
	}
	if isSubject(bin.Y) {
		if k := resolve(bin.X); k != nil && k.Kind() == val.Kind() {
			return constant.Compare(k, bin.Op, val), true
		}
	}
	return false, false
}

// ---------------------------------------------------------------------------
// Struct initialisation

// fxFieldStore is one store into a field of a local struct.
type fxFieldStore struct {
	Field string
	Val   ssa.Value
	St    *ssa.Store
}

// fxStructStores collects the stores that initialise local struct a: stores
// through &a.f (nested paths dotted), and — for a whole-value store `*a = *b`
// with b another local struct (a composite literal) — b's field stores. whole
// lists whole-value stores that are not such a literal copy.
func fxStructStores(a *ssa.Alloc) (fields []fxFieldStore, whole []*ssa.Store) {
	seen := map[*ssa.Alloc]bool{}
	var collect func(x *ssa.Alloc, prefix string)
	var fieldRefs func(addr ssa.Value, prefix string)
	var helperStores func(ptr ssa.Value, depth int)
	fieldRefs = func(addr ssa.Value, prefix string) {
		refs := addr.Referrers()
		if refs == nil {
			return
		}
		for _, r := range *refs {
			switch y := r.(type) {
			case *ssa.FieldAddr:
				name := fxJoin(prefix, fxFieldNameOf(y.X.Type(), y.Field))
				// store into the field itself
				if yr := y.Referrers(); yr != nil {
					for _, rr := range *yr {
						if s, ok := rr.(*ssa.Store); ok && s.Addr == y {
							// a nested struct literal stored whole: expand it
							if u, ok := s.Val.(*ssa.UnOp); ok && u.Op == token.MUL {
								if inner, ok := u.X.(*ssa.Alloc); ok {
									if _, isStruct := inner.Type().Underlying().(*types.Pointer).Elem().Underlying().(*types.Struct); isStruct && !seen[inner] {
										collect(inner, name)
										continue
									}
								}
							}
							fields = append(fields, fxFieldStore{name, s.Val, s})
						}
					}
				}
				fieldRefs(y, name)
			}
		}
	}
	collect = func(x *ssa.Alloc, prefix string) {
		if seen[x] {
			return
		}
		seen[x] = true
		if refs := x.Referrers(); refs != nil {
			for _, r := range *refs {
				if s, ok := r.(*ssa.Store); ok && s.Addr == x {
					if u, ok := s.Val.(*ssa.UnOp); ok && u.Op == token.MUL {
						if lit, ok := u.X.(*ssa.Alloc); ok {
							collect(lit, prefix)
							continue
						}
					}
					if prefix == "" {
						whole = append(whole, s)
					}
				}
			}
		}
		fieldRefs(x, prefix)
		// the struct's address handed to a static in-repo helper (depth ≤ 2):
		// the helper's stores through that parameter initialise it too
		if prefix == "" {
			helperStores(x, 0)
		}
	}
	helperStores = func(ptr ssa.Value, depth int) {
		refs := ptr.Referrers()
		if refs == nil || depth >= 2 {
			return
		}
		for _, r := range *refs {
			call, ok := r.(*ssa.Call)
			if !ok {
				continue
			}
			callee := ir.Callee(call.Call)
			if callee == nil || callee.Blocks == nil || callee.Pkg == nil || callee.Pkg.Pkg.Path() != ir.MastPath {
				continue
			}
			for i, arg := range call.Call.Args {
				if arg != ptr || i >= len(callee.Params) {
					continue
				}
				p := callee.Params[i]
				fieldRefs(p, "")
				helperStores(p, depth+1)
			}
		}
	}
	collect(a, "")
	return
}

// fxStoresOf filters by field path.
func fxStoresOf(fs []fxFieldStore, field string) []fxFieldStore {
	var out []fxFieldStore
	for _, f := range fs {
		if f.Field == field {
			out = append(out, f)
		}
	}
	return out
}

// fxAllocOfReturn is the local struct of named type `name` return r yields
// (by pointer or by value).
func fxAllocOfReturn(r *ssa.Return, name string) *ssa.Alloc {
	for _, res := range r.Results {
		v := res
		if u, ok := v.(*ssa.UnOp); ok && u.Op == token.MUL {
			v = u.X
		}
		if a, ok := v.(*ssa.Alloc); ok && ir.IsPtrToNamed(a.Type(), name) {
			return a
		}
	}
	return nil
}

// fxReturnedAlloc finds the one local struct of named type `name` that the
// success returns of fn yield; nil if there is none or they differ.
func fxReturnedAlloc(fn *ssa.Function, name string) (*ssa.Alloc, *ssa.Return) {
	var out *ssa.Alloc
	var at *ssa.Return
	for _, r := range fxSuccessReturns(fn) {
		a := fxAllocOfReturn(r, name)
		if a == nil {
			continue
		}
		if out != nil && out != a {
			return nil, nil
		}
		out, at = a, r
	}
	return out, at
}

// ---------------------------------------------------------------------------
// Struct tags

type fxJSONTag struct {
	Name      string
	OmitEmpty bool
	Other     string
}

func fxJSON(st *types.Struct, i int) fxJSONTag {
	f := st.Field(i)
	t := fxJSONTag{Name: f.Name()}
	tag, ok := reflect.StructTag(st.Tag(i)).Lookup("json")
	if !ok {
		return t
	}
	parts := strings.Split(tag, ",")
	if parts[0] == "-" && len(parts) == 1 {
		t.Name = "-"
		return t
	}
	if parts[0] != "" {
		t.Name = parts[0]
	}
	var other []string
	for _, p := range parts[1:] {
		if p == "omitempty" {
			t.OmitEmpty = true
		} else if p != "" {
			other = append(other, p)
		}
	}
	sort.Strings(other)
	t.Other = strings.Join(other, ",")
	return t
}

func (t fxJSONTag) String() string {
	s := t.Name
	if t.OmitEmpty {
		s += ",omitempty"
	}
	if t.Other != "" {
		s += "," + t.Other
	}
	return s
}

func fxTypeString(t types.Type) string {
	return fxNoAny(types.TypeString(t, func(p *types.Package) string { return p.Path() }))
}

// fxNoAny spells the predeclared alias any as interface{}: the two are the same type, and
// which one the source uses is not part of the format. (A declared type named any prints
// with its package path in front, so it is not touched.)
var fxAnyRE = regexp.MustCompile(`(^|[^.\w])any\b`)

func fxNoAny(s string) string { return fxAnyRE.ReplaceAllString(s, "${1}interface{}") }

// ---------------------------------------------------------------------------
// Misc

// fxDependsOnParams collects the parameters v is computed from.
func fxDependsOnParams(v ssa.Value) map[*ssa.Parameter]bool {
	out := map[*ssa.Parameter]bool{}
	seen := map[ssa.Value]bool{}
	var walk func(ssa.Value, int)
	walk = func(x ssa.Value, d int) {
		if x == nil || seen[x] || d > 24 {
			return
		}
		seen[x] = true
		x = ir.ResolveCell(x)
		if p, ok := x.(*ssa.Parameter); ok {
			out[p] = true
			return
		}
		ins, ok := x.(ssa.Instruction)
		if !ok {
			return
		}
		for _, op := range ins.Operands(nil) {
			if op != nil && *op != nil {
				walk(*op, d+1)
			}
		}
		// a merged value also depends on the conditions selecting its edges
		if phi, ok := x.(*ssa.Phi); ok {
			for _, p := range phi.Block().Preds {
				for _, f := range ir.FactsAt(p) {
					walk(f.Cond, d+1)
				}
			}
		}
	}
	walk(v, 0)
	return out
}

// fxIsLenOfFieldPlus1: v is len(<load of a field named field>)+1; returns the
// base of the field load.
func fxIsLenOfFieldPlus1(v ssa.Value, field string) (ssa.Value, bool) {
	bin, ok := v.(*ssa.BinOp)
	if !ok || bin.Op != token.ADD {
		return nil, false
	}
	x, y := bin.X, bin.Y
	if fxIsIntConst(x, 1) {
		x, y = y, x
	}
	if !fxIsIntConst(y, 1) {
		return nil, false
	}
	return fxIsLenOfField(x, field)
}

func fxIsLenOfField(v ssa.Value, field string) (ssa.Value, bool) {
	c, ok := v.(*ssa.Call)
	if !ok {
		return nil, false
	}
	b, ok := c.Call.Value.(*ssa.Builtin)
	if !ok || b.Name() != "len" || len(c.Call.Args) != 1 {
		return nil, false
	}
	base, p, ok := fxFieldLoad(c.Call.Args[0])
	if !ok || p != field {
		return nil, false
	}
	return base, true
}

// fxSwitchChain parses the TypeAssert chain a type switch over subject
// compiles to, starting at block b.
type fxCase struct {
	T     types.Type
	Body  *ssa.BasicBlock
	Bound ssa.Value // the asserted value (nil for multi-type cases)
	TA    *ssa.TypeAssert
}

func fxSwitchChain(b *ssa.BasicBlock, subject ssa.Value) (cases []fxCase, deflt *ssa.BasicBlock) {
	for steps := 0; steps < 64; steps++ {
		if len(b.Instrs) == 0 {
			return cases, b
		}
		iff, ok := b.Instrs[len(b.Instrs)-1].(*ssa.If)
		if !ok {
			return cases, b
		}
		ex, ok := iff.Cond.(*ssa.Extract)
		if !ok || ex.Index != 1 {
			return cases, b
		}
		ta, ok := ex.Tuple.(*ssa.TypeAssert)
		if !ok || !ta.CommaOk || ta.X != subject || ta.Block() != b {
			return cases, b
		}
		// the block must contain nothing but the assert and its extracts
		for _, ins := range b.Instrs[:len(b.Instrs)-1] {
			switch y := ins.(type) {
			case *ssa.TypeAssert:
				if y != ta {
					return cases, b
				}
			case *ssa.Extract:
				if y.Tuple != ta {
					return cases, b
				}
			case *ssa.DebugRef:
			default:
				if len(cases) > 0 {
					return cases, b
				}
			}
		}
		var bound ssa.Value
		for _, r := range *ta.Referrers() {
			if e, ok := r.(*ssa.Extract); ok && e.Index == 0 {
				bound = e
			}
		}
		cases = append(cases, fxCase{T: ta.AssertedType, Body: b.Succs[0], Bound: bound, TA: ta})
		b = b.Succs[1]
	}
	return cases, b
}

func fxTypeSet(cs []fxCase) []string {
	var out []string
	for _, c := range cs {
		out = append(out, fxShortType(c.T))
	}
	return out
}

func fxShortType(t types.Type) string {
	return fxNoAny(types.TypeString(t, func(p *types.Package) string { return "" }))
}

func fxSorted(s []string) []string {
	o := append([]string(nil), s...)
	sort.Strings(o)
	return o
}

func fxSetDiff(a, b []string) (onlyA, onlyB []string) {
	ma, mb := map[string]bool{}, map[string]bool{}
	for _, x := range a {
		ma[x] = true
	}
	for _, x := range b {
		mb[x] = true
	}
	for _, x := range a {
		if !mb[x] {
			onlyA = append(onlyA, x)
		}
	}
	for _, x := range b {
		if !ma[x] {
			onlyB = append(onlyB, x)
		}
	}
	return
}

// fxReturnedClosure: fn returns a single closure; that closure's function.
func fxReturnedClosure(fn *ssa.Function) *ssa.Function {
	var out *ssa.Function
	for _, r := range ir.Returns(fn) {
		if len(r.Results) != 1 {
			return nil
		}
		switch x := r.Results[0].(type) {
		case *ssa.MakeClosure:
			f, _ := x.Fn.(*ssa.Function)
			if out != nil && out != f {
				return nil
			}
			out = f
		case *ssa.Function:
			if out != nil && out != x {
				return nil
			}
			out = x
		default:
			return nil
		}
	}
	return out
}

func fxPosOf(P *ir.Program, v interface{}) string {
	switch x := v.(type) {
	case ssa.Instruction:
		return P.InstrPos(x)
	case *ssa.Function:
		return P.Pos(x.Pos())
	case ssa.Value:
		if x.Pos().IsValid() {
			return P.Pos(x.Pos())
		}
	}
	return "-"
}

func fxValPos(P *ir.Program, v ssa.Value, fallback *ssa.Function) string {
	if ins, ok := v.(ssa.Instruction); ok && ins.Block() != nil {
		return P.InstrPos(ins)
	}
	if v != nil && v.Pos().IsValid() {
		return P.Pos(v.Pos())
	}
	if fallback != nil {
		return P.Pos(fallback.Pos())
	}
	return "-"
}

var _ = fmt.Sprintf

// ---------------------------------------------------------------------------
// CRC table provenance

// fxCRCPoly resolves a *crc64.Table value to the constant polynomial it was
// built from: crc64.MakeTable(k) directly, through a package variable that is
// initialised exactly once, through a function of the repository all of whose
// returns resolve to the same polynomial, or through a function value held in
// such a variable (including one wrapped by sync.OnceValue). why != "" when the
// value does not resolve; at is the MakeTable call or the last construct seen.
func fxCRCPoly(P *ir.Program, v ssa.Value, depth int) (poly uint64, at ssa.Instruction, why string) {
	if depth > 6 {
		return 0, nil, "table provenance too deep"
	}
	v = fxStrip(v)
	if g := fxGlobalOf(v); g != nil {
		iv, st, ok := fxGlobalInit(P, g)
		if !ok {
			return 0, nil, "the variable " + g.Name() + " is not initialised exactly once (reassigned somewhere in the repository)"
		}
		p, a, w := fxCRCPoly(P, iv, depth+1)
		if a == nil {
			a = st
		}
		return p, a, w
	}
	call, ok := v.(*ssa.Call)
	if !ok {
		return 0, nil, "the table is not the result of a call or a package variable"
	}
	callee := ir.Callee(call.Call)
	if callee != nil && fxFullName(callee) == "hash/crc64.MakeTable" && len(call.Call.Args) == 1 {
		k := fxConst(call.Call.Args[0])
		if k == nil {
			return 0, call, "polynomial passed to crc64.MakeTable is not a constant"
		}
		u, exact := constant.Uint64Val(k)
		if !exact {
			return 0, call, "polynomial passed to crc64.MakeTable is not a uint64 constant"
		}
		return u, call, ""
	}
	if callee == nil {
		// a function value: a closure or function held in a once-initialised variable,
		// possibly wrapped by sync.OnceValue
		callee = fxTableProducer(P, call.Call.Value, 0)
	}
	if callee == nil || !fxOwnFunc(callee) && callee.Parent() == nil {
		return 0, call, "the table is not built by hash/crc64.MakeTable"
	}
	rets := ir.Returns(callee)
	if len(rets) == 0 {
		return 0, call, "the table's producer never returns"
	}
	first := true
	for _, r := range rets {
		if len(r.Results) != 1 {
			return 0, call, "the table's producer returns several values"
		}
		p, a, w := fxCRCPoly(P, r.Results[0], depth+1)
		if w != "" {
			return 0, a, w
		}
		if !first && p != poly {
			return 0, a, "the table's producer returns tables of different polynomials"
		}
		poly, at, first = p, a, false
	}
	return poly, at, ""
}

// fxTableProducer: the function a func() *crc64.Table value denotes.
func fxTableProducer(P *ir.Program, fv ssa.Value, depth int) *ssa.Function {
	if depth > 3 {
		return nil
	}
	fv = fxStrip(fv)
	switch x := fv.(type) {
	case *ssa.Function:
		return x
	case *ssa.MakeClosure:
		if f, ok := x.Fn.(*ssa.Function); ok {
			return f
		}
	case *ssa.Call:
		if cal := ir.Callee(x.Call); cal != nil && fxFullName(cal) == "sync.OnceValue" && len(x.Call.Args) == 1 {
			return fxTableProducer(P, x.Call.Args[0], depth+1)
		}
	}
	if g := fxGlobalOf(fv); g != nil {
		if iv, _, ok := fxGlobalInit(P, g); ok {
			return fxTableProducer(P, iv, depth+1)
		}
	}
	return nil
}

// fxHelperLeaves expands v through phis and through the result tuple of a
// private (unexported) static in-repo helper: result #i of a call stands for
// the helper's i-th return operand on every return (depth ≤ 2). Calls of
// exported functions (DefaultKeyCompare, DefaultLayer, …) stay leaves.
func fxHelperLeaves(v ssa.Value, depth int) []ssa.Value {
	var out []ssa.Value
	for _, l := range fxHelperLeavesEnv(v, depth, nil) {
		out = append(out, l.V)
	}
	return out
}

// fxEnvLeaf is a leaf of fxHelperLeavesEnv: a value, and what the parameters
// of the helper(s) it was found in stand for at the call site(s) followed.
type fxEnvLeaf struct {
	V   ssa.Value
	Env map[*ssa.Parameter]ssa.Value
}

// Arg resolves x, when it is a parameter of a followed helper, to the caller's argument.
func (l fxEnvLeaf) Arg(x ssa.Value) ssa.Value {
	if p, ok := fxStripNoConv(x).(*ssa.Parameter); ok {
		if a, has := l.Env[p]; has {
			return a
		}
	}
	return x
}

// fxHelperLeavesEnv is fxHelperLeaves for functions and statically bound
// methods alike, remembering the arguments of the calls it follows.
func fxHelperLeavesEnv(v ssa.Value, depth int, env map[*ssa.Parameter]ssa.Value) []fxEnvLeaf {
	var out []fxEnvLeaf
	for _, l := range (&fxAssume{}).leaves(v, nil) {
		if call, idx := fxCallOf(l); call != nil && depth < 2 {
			callee := ir.Callee(call.Call)
			if callee != nil && callee.Blocks != nil && callee.Pkg != nil && callee.Pkg.Pkg.Path() == ir.MastPath &&
				callee.Object() != nil && !callee.Object().Exported() && !call.Call.IsInvoke() && len(callee.Params) == len(call.Call.Args) {
				sub := map[*ssa.Parameter]ssa.Value{}
				for i, q := range callee.Params {
					sub[q] = fxEnvLeaf{Env: env}.Arg(call.Call.Args[i])
				}
				n := 0
				for _, r := range ir.Returns(callee) {
					if idx < len(r.Results) {
						n++
						out = append(out, fxHelperLeavesEnv(r.Results[idx], depth+1, sub)...)
					}
				}
				if n > 0 {
					continue
				}
			}
		}
		out = append(out, fxEnvLeaf{l, env})
	}
	return out
}

// fxIsHelperResult: x (a value inside helper h) is what h returns as result
// #idx on every return, where v = result #idx of a call of h.
func fxIsHelperResult(x, v ssa.Value) bool {
	call, idx := fxCallOf(v)
	if call == nil {
		return false
	}
	callee := ir.Callee(call.Call)
	ins, ok := x.(ssa.Instruction)
	if callee == nil || callee.Blocks == nil || !ok || ins.Parent() != callee {
		return false
	}
	n := 0
	for _, r := range ir.Returns(callee) {
		if idx >= len(r.Results) || fxStripNoConv(r.Results[idx]) != fxStripNoConv(x) {
			return false
		}
		n++
	}
	return n > 0
}
