#!/usr/bin/env python3
"""Regenerates MANIFEST.json from the table below and from `mastcheck -list`
(a property is claimed iff it owns at least one rule in the built checker)."""
import json, subprocess, sys, os

HERE = os.path.dirname(os.path.abspath(__file__))

CLAIMS = {
 "C01": ("thin", "Structural side conditions of map semantics: root-nil typestate on every use of the root as a node (NILROOT), no == / != on user keys or values (IFACEEQ), read-only API reaches no tree-visible write (PURITY), size bookkeeping paired with entry insertion/removal (SIZE), constructors set every function field that is called (CTOR).",
         "Does NOT decide lookup/iteration results, ordering or model agreement for any history; those quantify over run-time values."),
 "C02": ("mechanism", "Copy-on-write ownership as an inductive invariant over every instruction that writes node memory (OWN), no two nodes sharing a slice backing array (ALIAS), flag invariant shared ⇒ ¬dirty ∧ source≠nil (FLAGS), every node handed to the cache or returned by the loader is flagged shared (SHAREDPUB), Clone deep-copies unshared nodes (CLONE), no exported signature exposes a node (ESCAPE).",
         "Decides the enabling mechanism (no instruction can write memory reachable from a captured version), by local path reasoning instead of a whole-heap pointer analysis; not the observable contents after arbitrary histories. User NodeCache/Persist assumed not to mutate nodes."),
 "C03": ("most", "WaitGroup barrier protocol of flush on every path (BARRIER), store error surfaced (ERRPROP), root swapped only after both success tests (ROOTSWAP), cache key carries the store prefix at every cache site (CACHEKEY), clean-marking ordered after store success (CLEANMARK).",
         "The schedule clause is decided (a barrier is correct or not by where Add/Done/Wait sit); which nodes are in the store after a particular fault sequence is not."),
 "C04": ("thin", "Height and both thresholds are written together and re-derived from Root on load (THRESH); the persisted form of the empty map is unique — no entry-less root is stored (NOEMPTY); encoding determinism (DET).",
         "History-independence of node boundaries and of the height rule is arithmetic over sizes and layers and is NOT decided."),
 "C05": ("mechanism", "Writer/reader agreement: every Root field written by MakeRoot/NewRoot and read by LoadMast with paired flows (ROOTFIELDS), LoadMast initialises every Mast field (CTOR), codec field order / element-type / primitive pairing (CODECSYM), JSON struct agreement (STRUCTAGREE), format switch coverage (FORMATS).",
         "Equality of decoded and original values is not decided."),
 "C06": ("thin", "Nil/emptied-root typestate in diff (NILROOT), old/new side consistency of every stack, load, memo and report (SIDES), values compared by DeepEqual not == (IFACEEQ), callback error/stop propagation (CBPROP).",
         "Exactly-once, order and completeness of reported keys are not decided."),
 "C07": ("thin", "Old/new side consistency of link reports, memo maps and the tree each link is loaded through (SIDES); the reported link is the popped link itself (LINKPROV).",
         "At-most-once and set equality with reachable nodes are not decided."),
 "C08": ("most", "Exactly one Persist.Store call site, whose name argument is base64.RawURLEncoding(blake2b.Sum256(b)) of the very byte slice passed as contents, by SSA value identity (STOREONCE, HASHNAME); the encode path has no nondeterminism source and reads only Key/Value/Link (DET, ENCINPUTS).",
         "Assumes user marshalers are deterministic and library semantics of Sum256/EncodeToString."),
 "C09": ("thin", "Key/Value/Link always updated together (TRIPLE); no entry-less node linked or stored (NOEMPTY).",
         "Level placement, ordering, range containment and size=count are not decided."),
 "C10": ("mechanism", "Every Cursor method guards the empty path and never uses len-1 of a possibly empty slice as an index (CURSORGUARD); the link that is nil-tested is the link that is followed (LINKNIL).",
         "Visit order and seek semantics are not decided."),
 "C11": ("mechanism", "No write to a node in shared state (OWN, SHAREDPUB, FLAGS), no write to a node after it was handed to another goroutine (PUB), mutex discipline of mutex-bearing types and of flush's error cell (LOCK), no writes to package-level variables (GLOBAL).",
         "Per-tree behavioural equivalence under interleaving is not decided; user caches/stores assumed goroutine-safe."),
 "C12": ("mechanism", "Commit-point discipline in Insert/Delete: no tree-visible effect before a call whose failure is returned (COMMIT); read-only operations have no tree-visible effect (PURITY).",
         "Contents after a fault and the retry clause are not decided."),
 "C13": ("mechanism", "A clean node with a known name is never re-encoded, re-sent or descended into (CLEANSKIP), who may set dirty (DIRTYWRITERS), a no-op insert returns before any effect (NOOPEARLY), IsDirty reads the root's flag (ISDIRTY), single store site (STOREONCE).",
         "Write counts and key-range claims are not decided."),
 "C14": ("most", "Constants, API identities, struct tags, format names and type-switch tables that are the published format (FORMATCONST); byte-emission grammar of the binary codec (EMITGRAMMAR).",
         "Arithmetic of the layer functions and byte-level vectors are not decided."),
 "C15": ("most", "Equal links short-circuit without any load (DIFFSHORTCUT).",
         "The 2·D+2 bound is not decided."),
 "C16": ("most", "No node load inside a width-dependent loop and at most two loads / two recursive descents per level on point operations (LOADBOUND).",
         "Assumes recursion descends one level per call; numeric totals not decided."),
 "C17": ("most", "Atomic write protocol of the file store on every path: temp file in the same directory → write → sync → close → rename; the final name is never opened for writing (ATOMICFILE).",
         "Kernel/filesystem behaviour trusted."),
 "C18": ("most", "S3 key/bucket mapping identical in Load and Store (S3KEY), backend errors returned (ERRPROP), miss → error (MISSERR), lock discipline (LOCK), interface witnesses (IMPL).",
         "Byte-for-byte round trip is not decided."),
 "C19": ("most", "Unknown format rejected (FORMATS), LoadMast passes the root validator and propagates its error (MUSTCHECK), each rejection clause exists with the right comparison direction (ROOTCLAUSES), no data-dependent panic on the load path (NOPANICLOAD).",
         "Sufficiency of the clauses is not decided."),
}

def main():
    out = subprocess.run([os.path.join(HERE, "bin/mastcheck"), "-list"], capture_output=True, text=True, check=True).stdout
    owned = {}
    docs = {}
    for line in out.splitlines():
        parts = line.split("\t")
        if len(parts) < 3: continue
        docs[parts[0]] = parts[2]
        for p in parts[1].split(","):
            owned.setdefault(p, []).append(parts[0])
    checks, na = [], []
    for pid in sorted(CLAIMS):
        strength, text, note = CLAIMS[pid]
        if pid not in owned:
            na.append({"property_id": pid, "reason": "no rule built yet for this property in this family (static analysis); see DESIGN.md §4 for the clauses that are planned and the ones that cannot be decided statically"})
            continue
        rules = sorted(owned[pid])
        checks.append({
            "property_id": pid,
            "quick_cmd": f"./check.sh {pid} quick",
            "thorough_cmd": f"./check.sh {pid} thorough",
            "evidence_file": f"/verif/evidence/{pid}.json",
            "replay_cmd_template": "bin/mastcheck -replay {path}",
            "engine": "mastcheck",
            "level_claimed": {
                "category": "other",
                "text": f"Static analysis; strength of claim: {strength} (DESIGN.md §0). Decides structural clauses that are necessary conditions of {pid}, for all paths of all functions at once. Clauses decided by the rules that are built and run: " + " ".join(f"[{r}] {docs[r]}" for r in rules) + f" Planned scope of the claim (DESIGN.md §4): {text}",
                "design_ref": f"DESIGN.md §4 {pid}, §5",
            },
            "level_note": note + " Trusted base: go/types + go/ssa (x/tools v0.29.0), Go compiler export data, standard-library semantics. A pass means the mechanism is intact, not that the behaviour is right.",
            "technique": "static analysis: repository-specific rules over go/ssa + go/types (" + ", ".join(rules) + ")",
        })
    m = {
        "version": 1,
        "setup_cmd": "cd /verif/checker && GOFLAGS=-mod=vendor GOPROXY=off GOSUMDB=off GOTOOLCHAIN=local go build -o /verif/bin/mastcheck ./cmd/mastcheck",
        "hooks": {
            "guard": "verif",
            "enable": "none needed: the checks analyse the unmodified sources; no hook or instrumentation exists in /repo",
            "baseline_off_cmd": "cd /repo && GOFLAGS=-mod=mod GOPROXY=off go test -vet=off -count=1 -timeout 25m ./...",
            "source_commits": [],
            "add_only": True,
        },
        "engines": [{
            "name": "mastcheck", "path": "/verif/checker",
            "serves_properties": sorted(owned),
            "kind_free_text": "repository-specific static analyser (Go; go/packages, go/types, go/ssa from x/tools v0.29.0, vendored); analyses /repo's working tree on every run, executes nothing from it",
        }],
        "checks": checks,
        "not_applicable": na,
        "notes": "All claims are level 'other': each check decides named structural clauses (necessary conditions) of its property, never the run-time behaviour. fix: commits in /repo and known findings are listed in /verif/known_findings.json and DESIGN.md §6.",
    }
    json.dump(m, open(os.path.join(HERE, "MANIFEST.json"), "w"), indent=1, ensure_ascii=False)
    print("claimed:", [c["property_id"] for c in checks])
    print("not_applicable:", [n["property_id"] for n in na])

main()
