// Demonstration for F30 (C18, C03): copy to persist/file/ and run  go test -count=1 -run TestH7File ./persist/file/
// (the tree test loads the root through the store it was written with; before the repair that store pointed at another directory after the Chdir)
// H7 findings 2 and 3 (C18): the file store resolves its base path anew at every call.
//
// Copy to persist/file/ (package file) and run:
//   go test -run 'TestH7File' ./persist/file/
// TestH7FileRelativeChdir and TestH7FileRelativeChdirTree fail on the unmodified tree (fae5611)
// everywhere; TestH7FileEmptyBasePath fails where $TMPDIR is on another device than the
// working directory (the test arranges that with /dev/shm and skips otherwise).
package file

import (
	"bytes"
	"context"
	"os"
	"path/filepath"
	"syscall"
	"testing"

	"github.com/jrhy/mast"
)

// Store succeeded; the process changes its working directory; Load of the
// same name through the same Persist value fails.
func TestH7FileRelativeChdir(t *testing.T) {
	ctx := context.Background()
	b := []byte("node bytes")
	name := "QL7xO6At5OFTgQDE2q4ajKjeyQM5iCutAgd-TM3TeiE"
	tmp := t.TempDir()
	a, c := filepath.Join(tmp, "a"), filepath.Join(tmp, "c")
	os.MkdirAll(filepath.Join(a, "nodes"), 0755)
	os.MkdirAll(filepath.Join(c, "nodes"), 0755)
	wd, _ := os.Getwd()
	defer os.Chdir(wd)
	os.Chdir(a)
	p := NewPersistForPath("nodes")
	if err := p.Store(ctx, name, b); err != nil {
		t.Fatal(err)
	}
	os.Chdir(c)
	got, err := p.Load(ctx, name)
	if err != nil || !bytes.Equal(got, b) {
		t.Errorf("relative base path: after a successful Store and os.Chdir, Load: %v", err)
	}
}

// The same through a tree with a NodeCache: after the Chdir MakeRoot reports
// success without writing anything anywhere (NodeURLPrefix is the unresolved
// string "nodes", so the cache claims the nodes are stored 'there'), and the
// root it returns cannot be loaded.
func TestH7FileRelativeChdirTree(t *testing.T) {
	ctx := context.Background()
	tmp := t.TempDir()
	a, c := filepath.Join(tmp, "a"), filepath.Join(tmp, "c")
	os.MkdirAll(filepath.Join(a, "nodes"), 0755)
	os.MkdirAll(filepath.Join(c, "nodes"), 0755)
	wd, _ := os.Getwd()
	defer os.Chdir(wd)
	os.Chdir(a)
	cache := mast.NewNodeCache(100)
	cfg := &mast.RemoteConfig{KeysLike: 0, ValuesLike: "", StoreImmutablePartsWith: NewPersistForPath("nodes"), NodeCache: cache}
	build := func() *mast.Root {
		m, err := mast.NewRoot(&mast.CreateRemoteOptions{BranchFactor: 4}).LoadMast(ctx, cfg)
		if err != nil {
			t.Fatal(err)
		}
		for i := 0; i < 50; i++ {
			if err := m.Insert(ctx, i, "v"); err != nil {
				t.Fatal(err)
			}
		}
		root, err := m.MakeRoot(ctx)
		if err != nil {
			t.Fatal(err)
		}
		return root
	}
	build()
	os.Chdir(c)
	root := build() // reports success
	ents, _ := os.ReadDir("nodes")
	m, err := root.LoadMast(ctx, &mast.RemoteConfig{KeysLike: 0, ValuesLike: "", StoreImmutablePartsWith: cfg.StoreImmutablePartsWith})
	if err == nil {
		err = m.Iter(ctx, func(k, v interface{}) error { return nil })
	}
	if err != nil {
		t.Errorf("MakeRoot reported success but wrote %d node files; its root does not load: %v", len(ents), err)
	}
}

// With the base path "" Load reads ./name, but Store creates its temporary
// file in os.TempDir() and renames it across directories (and devices).
func TestH7FileEmptyBasePath(t *testing.T) {
	ctx := context.Background()
	b := []byte("node bytes")
	name := "QL7xO6At5OFTgQDE2q4ajKjeyQM5iCutAgd-TM3TeiE"
	tmp := t.TempDir()
	var s1, s2 syscall.Stat_t
	if syscall.Stat("/dev/shm", &s1) != nil || syscall.Stat(tmp, &s2) != nil || s1.Dev == s2.Dev {
		t.Skip("need /dev/shm on another device than the test directory")
	}
	t.Setenv("TMPDIR", "/dev/shm")
	wd, _ := os.Getwd()
	defer os.Chdir(wd)
	os.Chdir(tmp)
	p := NewPersistForPath("")
	if err := p.Store(ctx, name, b); err != nil {
		t.Fatalf("empty base path: Store: %v", err)
	}
	got, err := p.Load(ctx, name)
	if err != nil || !bytes.Equal(got, b) {
		t.Errorf("empty base path: load: %v", err)
	}
}
