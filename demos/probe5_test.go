package mast

import (
	"fmt"
	"testing"
)

func TestProbe5Backward(t *testing.T) {
	m := NewInMemory()
	m.branchFactor = 4
	m.growAfterSize = 4
	for _, k := range []int{4, 5, 6, 8, 9, 10, 12} {
		m.Insert(ctx, k, k)
	}
	t.Logf("height %d contents %s", m.Height(), contents(&m))
	c, _ := m.Cursor(ctx)
	c.Max(ctx)
	s := ""
	for i := 0; i < 45; i++ {
		k, _, ok := c.Get()
		if !ok {
			s += "| "
			break
		}
		s += fmt.Sprintf("%v ", k)
		if err := c.Backward(ctx); err != nil {
			s += "ERR:" + err.Error()
			break
		}
	}
	t.Logf("backward: %s", s)
}
