package mast

import (
	"sync"
	"testing"
)

// spyCache hands every node added by a flush worker straight to a reader goroutine.
type spyCache struct {
	NodeCache
	ch chan *mastNode
}

func (s spyCache) Add(k, v interface{}) {
	s.NodeCache.Add(k, v)
	if n, ok := v.(*mastNode); ok {
		select {
		case s.ch <- n:
		default:
		}
	}
}

func TestProbe7PublishRace(t *testing.T) {
	store := NewInMemoryStore()
	sc := spyCache{NewNodeCache(1000), make(chan *mastNode, 1000)}
	m := probeTree(t, 4, sc, store)
	for k := 1; k <= 40; k++ {
		m.Insert(ctx, k, k)
	}
	var wg sync.WaitGroup
	wg.Add(1)
	seen := 0
	go func() {
		defer wg.Done()
		for n := range sc.ch {
			if n.shared { // what another tree would read in ToMut
				seen++
			}
		}
	}()
	if _, err := m.MakeRoot(ctx); err != nil {
		t.Fatal(err)
	}
	close(sc.ch)
	wg.Wait()
	t.Logf("nodes seen shared: %d", seen)
}
