// Finding G1-2 (properties C01 and C10).
//
// Copy to the root of the mast repository (package mast) and run:
//   export GOFLAGS=-mod=mod GOPROXY=off GOSUMDB=off GOTOOLCHAIN=local; unset GOWORK
//   go test -run 'TestG1NarrowIntOrder' -count=1 .
//
// DefaultLayer knows int8/16/32 and uint8/16/32 as numbers, DefaultKeyCompare
// does not: such keys fall into its default branch and are ordered by the bytes
// of their JSON text ("10" < "9", "-1" < "-10" < "-2"). Iter, SeekIter, the
// cursor and the diff therefore run in decimal-text order, not ascending order,
// while the same numbers held in int/int64/uint/uint64 keys run numerically.
package mast

import (
	"context"
	"fmt"
	"sort"
	"testing"
)

func TestG1NarrowIntOrder(t *testing.T) {
	ctx := context.Background()
	in := []int32{9, 10, 100, 1, 2, -1, -2, -10}
	for _, persisted := range []bool{false, true} {
		var m *Mast
		if persisted {
			var err error
			m, err = NewRoot(&CreateRemoteOptions{BranchFactor: 4}).LoadMast(ctx, &RemoteConfig{
				KeysLike: int32(0), ValuesLike: "", StoreImmutablePartsWith: NewInMemoryStore()})
			if err != nil {
				t.Fatal(err)
			}
		} else {
			mm := NewInMemory()
			m = &mm
		}
		for _, k := range in {
			if err := m.Insert(ctx, k, ""); err != nil {
				t.Fatal(err)
			}
		}
		var got []int32
		if err := m.Iter(ctx, func(k, _ interface{}) error { got = append(got, k.(int32)); return nil }); err != nil {
			t.Fatal(err)
		}
		want := append([]int32{}, in...)
		sort.Slice(want, func(i, j int) bool { return want[i] < want[j] })
		if fmt.Sprint(got) != fmt.Sprint(want) {
			t.Errorf("persisted=%v: Iter over int32 keys yields %v, want ascending %v", persisted, got, want)
		}
		// entries not smaller than 3
		got = nil
		if err := m.SeekIter(ctx, int32(3), func(k, _ interface{}) error { got = append(got, k.(int32)); return nil }); err != nil {
			t.Fatal(err)
		}
		if fmt.Sprint(got) != "[9 10 100]" {
			t.Errorf("persisted=%v: SeekIter(3) over int32 keys yields %v, want [9 10 100]", persisted, got)
		}
		c, err := m.Cursor(ctx)
		if err != nil {
			t.Fatal(err)
		}
		if err := c.Max(ctx); err != nil {
			t.Fatal(err)
		}
		if k, _, ok := c.Get(); !ok || k.(int32) != 100 {
			t.Errorf("persisted=%v: cursor Max is at %v, want 100", persisted, k)
		}
	}
}
