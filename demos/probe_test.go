package mast

import (
	"context"
	"fmt"
	"testing"
)

func probeTree(t *testing.T, bf uint, cache NodeCache, store Persist) *Mast {
	root := NewRoot(&CreateRemoteOptions{BranchFactor: bf})
	m, err := root.LoadMast(context.Background(), &RemoteConfig{KeysLike: 0, ValuesLike: 0, StoreImmutablePartsWith: store, NodeCache: cache})
	if err != nil {
		t.Fatal(err)
	}
	return m
}

func contents(m *Mast) string {
	s := ""
	err := m.Iter(context.Background(), func(k, v interface{}) error { s += fmt.Sprintf("%v=%v ", k, v); return nil })
	if err != nil {
		s += "ERR:" + err.Error()
	}
	return s
}

func TestProbeIterEmptied(t *testing.T) {
	m := NewInMemory()
	m.Insert(ctx, 1, 1)
	m.Delete(ctx, 1, 1)
	t.Logf("iter emptied: %q", contents(&m))
	m2 := NewInMemory()
	t.Logf("iter fresh: %q", contents(&m2))
}

func TestProbeDeleteSliceValue(t *testing.T) {
	defer func() { t.Logf("recovered: %v", recover()) }()
	m := NewInMemory()
	m.Insert(ctx, 1, []int{1})
	err := m.Delete(ctx, 1, []int{1})
	t.Logf("delete slice: %v", err)
}

func TestProbeCloneFollow(t *testing.T) {
	store := NewInMemoryStore()
	m := probeTree(t, 4, nil, store)
	// height-1 tree: need size >= 4 and key with layer 1 (multiples of 4)
	for _, k := range []int{4, 8, 1, 2, 3, 5, 9, 10} {
		m.Insert(ctx, k, k)
	}
	t.Logf("height=%d size=%d", m.Height(), m.Size())
	// delete 5 so gap between 4 and 8 is nil link
	m.Delete(ctx, 5, 5)
	r, err := m.MakeRoot(ctx)
	if err != nil {
		t.Fatal(err)
	}
	_ = r
	c, _ := m.Clone(ctx)
	before := contents(&c)
	m.Insert(ctx, 6, 6)
	after := contents(&c)
	t.Logf("clone before: %s", before)
	t.Logf("clone after : %s", after)
	if before != after {
		t.Logf("CLONE CHANGED (follow createOk)")
	}
}

func TestProbeSplitDirty(t *testing.T) {
	store := NewInMemoryStore()
	m := probeTree(t, 4, nil, store)
	for _, k := range []int{16, 32, 1, 2, 3, 5, 6, 7, 9, 10, 17, 18, 19, 21, 22, 23, 25, 26, 27, 29, 30} {
		m.Insert(ctx, k, k)
	}
	t.Logf("height=%d size=%d", m.Height(), m.Size())
	if _, err := m.MakeRoot(ctx); err != nil {
		t.Fatal(err)
	}
	a, _ := m.Clone(ctx)
	b, _ := m.Clone(ctx)
	c, _ := m.Clone(ctx)
	before := contents(&c)
	// a inserts layer-1 key 20 => splits the leaf {17..23}? leaf between 16 and 32 at layer0... height 2: root {16?}...
	a.Insert(ctx, 20, 20)
	a.Insert(ctx, 24, 24)
	a.Insert(ctx, 8, 8)
	mid := contents(&c)
	for _, k := range []int{11, 13, 14, 15, 31, 33, 34, 35} {
		b.Insert(ctx, k, k)
	}
	after := contents(&c)
	t.Logf("c before: %s", before)
	t.Logf("c mid   : %s", mid)
	t.Logf("c after : %s", after)
}

func TestProbeCursorEmpty(t *testing.T) {
	m := NewInMemory()
	m.Insert(ctx, 1, 1)
	m.Delete(ctx, 1, 1)
	for _, name := range []string{"min", "max", "ceil", "fwd", "back"} {
		func() {
			defer func() {
				if r := recover(); r != nil {
					t.Logf("emptied %s: PANIC %v", name, r)
				}
			}()
			c, err := m.Cursor(ctx)
			if err != nil {
				t.Logf("cursor err %v", err)
				return
			}
			switch name {
			case "min":
				err = c.Min(ctx)
			case "max":
				err = c.Max(ctx)
			case "ceil":
				err = c.Ceil(ctx, 1)
			case "fwd":
				err = c.Forward(ctx)
			case "back":
				err = c.Backward(ctx)
			}
			_, _, ok := c.Get()
			t.Logf("emptied %s: err=%v ok=%v", name, err, ok)
		}()
	}
	m2 := NewInMemory()
	for _, name := range []string{"min", "max", "ceil", "fwd", "back"} {
		func() {
			defer func() {
				if r := recover(); r != nil {
					t.Logf("fresh %s: PANIC %v", name, r)
				}
			}()
			c, err := m2.Cursor(ctx)
			if err != nil {
				t.Logf("cursor err %v", err)
				return
			}
			switch name {
			case "min":
				err = c.Min(ctx)
			case "max":
				err = c.Max(ctx)
			case "ceil":
				err = c.Ceil(ctx, 1)
			case "fwd":
				err = c.Forward(ctx)
			case "back":
				err = c.Backward(ctx)
			}
			_, _, ok := c.Get()
			t.Logf("fresh %s: err=%v ok=%v", name, err, ok)
		}()
	}
}

func TestProbeBackward(t *testing.T) {
	m := NewInMemory()
	m.branchFactor = 4
	m.growAfterSize = 4
	for k := 1; k <= 40; k++ {
		m.Insert(ctx, k, k)
	}
	t.Logf("height %d", m.Height())
	c, _ := m.Cursor(ctx)
	c.Max(ctx)
	s := ""
	for i := 0; i < 45; i++ {
		k, _, ok := c.Get()
		if !ok {
			s += "| "
			break
		}
		s += fmt.Sprintf("%v ", k)
		func() {
			defer func() {
				if r := recover(); r != nil {
					s += fmt.Sprintf("PANIC(%v)", r)
				}
			}()
			c.Backward(ctx)
		}()
	}
	t.Logf("backward: %s", s)
}

func TestProbeSeekAbsent(t *testing.T) {
	m := NewInMemory()
	m.branchFactor = 4
	m.growAfterSize = 4
	for k := 2; k <= 60; k += 2 {
		m.Insert(ctx, k, k)
	}
	for _, p := range []int{7, 15, 16, 17, 33, 61, 1} {
		s := ""
		m.SeekIter(ctx, p, func(k, v interface{}) error { s += fmt.Sprintf("%v ", k); return nil })
		t.Logf("seek %d: %s", p, s)
	}
}

func TestProbeDiffEmptied(t *testing.T) {
	m := NewInMemory()
	m.Insert(ctx, 1, 1)
	e := NewInMemory()
	e.Insert(ctx, 2, 2)
	e.Delete(ctx, 2, 2)
	err := m.DiffIter(ctx, &e, func(a, r bool, k, av, rv interface{}) (bool, error) { t.Logf("diff %v %v %v", a, r, k); return true, nil })
	t.Logf("m.diff(emptied): %v", err)
	err = e.DiffIter(ctx, &m, func(a, r bool, k, av, rv interface{}) (bool, error) { t.Logf("diff %v %v %v", a, r, k); return true, nil })
	t.Logf("emptied.diff(m): %v", err)
}
