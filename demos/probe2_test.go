package mast

import (
	"testing"
)

func TestProbe2CloneFollow(t *testing.T) {
	store := NewInMemoryStore()
	cache := NewNodeCache(1000)
	m := probeTree(t, 4, cache, store)
	for _, k := range []int{4, 8, 1, 2, 3, 5, 9, 10} {
		m.Insert(ctx, k, k)
	}
	t.Logf("height=%d size=%d", m.Height(), m.Size())
	m.Delete(ctx, 5, 5)
	r, err := m.MakeRoot(ctx)
	if err != nil {
		t.Fatal(err)
	}
	c, _ := m.Clone(ctx)
	before := contents(&c)
	m.Insert(ctx, 6, 6)
	after := contents(&c)
	t.Logf("clone before: %s", before)
	t.Logf("clone after : %s", after)
	l, err := r.LoadMast(ctx, &RemoteConfig{KeysLike: 0, ValuesLike: 0, StoreImmutablePartsWith: store, NodeCache: cache})
	if err != nil {
		t.Fatal(err)
	}
	t.Logf("reload(old root) size=%d: %s", l.Size(), contents(l))
}

func TestProbe2SplitDirty(t *testing.T) {
	store := NewInMemoryStore()
	cache := NewNodeCache(1000)
	m := probeTree(t, 4, cache, store)
	for _, k := range []int{16, 32, 1, 2, 3, 5, 6, 7, 9, 10, 17, 18, 19, 21, 22, 23, 25, 26, 27, 29, 30} {
		m.Insert(ctx, k, k)
	}
	t.Logf("height=%d size=%d", m.Height(), m.Size())
	r, err := m.MakeRoot(ctx)
	if err != nil {
		t.Fatal(err)
	}
	cfg := &RemoteConfig{KeysLike: 0, ValuesLike: 0, StoreImmutablePartsWith: store, NodeCache: cache}
	a, _ := r.LoadMast(ctx, cfg)
	b, _ := r.LoadMast(ctx, cfg)
	c, _ := r.LoadMast(ctx, cfg)
	before := contents(c)
	// a: insert layer-1 keys to split layer-0 leaves and a layer-2 key to split layer-1 nodes
	a.Insert(ctx, 48, 48) // layer 2: splits? 48>32 no
	a.Insert(ctx, 20, 20) // layer 1 key: splits leaf {17,18,19,21,22,23}? those are under layer1 node
	a.Insert(ctx, 24, 24)
	a.Insert(ctx, 8, 8)
	mid := contents(c)
	// b: insert layer-0 keys whose path passes through layer-1 nodes that a split... need layer-2 insert to split layer-1
	for _, k := range []int{11, 13, 14, 15, 31, 33, 34, 35} {
		b.Insert(ctx, k, k)
	}
	after := contents(c)
	t.Logf("c before: %s", before)
	t.Logf("c mid   : %s", mid)
	t.Logf("c after : %s", after)
	d, _ := r.LoadMast(ctx, cfg)
	t.Logf("d reload: %s", contents(d))
}
