// Finding H1-1 (property C10): Cursor.String panics on an empty tree and whenever
// the cursor's path runs through an interior node that holds no key.
//
// Copy to the repository root (package mast) and run:
//   export GOFLAGS=-mod=mod GOPROXY=off GOSUMDB=off GOTOOLCHAIN=local; unset GOWORK
//   go test -count=1 -run 'TestH1CursorString' .
// Both tests FAIL (panic: index out of range [-1], pub.go Cursor.String) on the unmodified tree.
package mast

import (
	"context"
	"fmt"
	"testing"
)

func h1String(c *Cursor) (s string, panicked interface{}) {
	defer func() { panicked = recover() }()
	return c.String(), nil
}

func TestH1CursorStringEmptyTree(t *testing.T) {
	ctx := context.Background()
	m := NewInMemory()
	c, err := m.Cursor(ctx)
	if err != nil {
		t.Fatal(err)
	}
	if _, p := h1String(c); p != nil {
		t.Errorf("Cursor.String() on a fresh cursor of an empty tree panicked: %v", p)
	}
	if err := c.Min(ctx); err != nil {
		t.Fatal(err)
	}
	if _, p := h1String(c); p != nil {
		t.Errorf("Cursor.String() after Min on an empty tree panicked: %v", p)
	}
	// same through fmt, which is how a Stringer is normally reached
	func() {
		defer func() {
			if p := recover(); p != nil {
				t.Errorf("fmt.Sprint(cursor) panicked: %v", p)
			}
		}()
		s := fmt.Sprint(c)
		if len(s) > 6 && s[:6] == "%!v(PA" {
			t.Errorf("fmt.Sprint(cursor) = %s", s)
		}
	}()
}

func TestH1CursorStringKeylessInteriorNode(t *testing.T) {
	ctx := context.Background()
	// branch factor 2, int keys: 4 has layer 2, the others layer 0, so the
	// height-2 tree is   root[4] -> (keyless layer-1 node) -> leaf[1 3]
	m, err := NewRoot(&CreateRemoteOptions{BranchFactor: 2}).LoadMast(ctx, &RemoteConfig{KeysLike: 0})
	if err != nil {
		t.Fatal(err)
	}
	for _, k := range []int{4, 1, 3, 5, 7} {
		if err := m.Insert(ctx, k, k); err != nil {
			t.Fatal(err)
		}
	}
	if m.Height() != 2 {
		t.Fatalf("expected height 2, got %d", m.Height())
	}
	c, err := m.Cursor(ctx)
	if err != nil {
		t.Fatal(err)
	}
	if err := c.Min(ctx); err != nil {
		t.Fatal(err)
	}
	k, _, ok := c.Get()
	if !ok || k.(int) != 1 {
		t.Fatalf("Min: got %v,%v", k, ok)
	}
	if _, p := h1String(c); p != nil {
		t.Errorf("Cursor.String() at the minimum (key 1) of {1,3,4,5,7} panicked: %v", p)
	}
}
