// Finding H3-5 (C04, and the loader side of C09): with the default node format
// V115Binary, UnmarshalerUsesRegisteredTypes is ignored by the decoder. With
// ValuesLike == nil (a configuration flush() explicitly accepts when
// UnmarshalerUsesRegisteredTypes is set, and the one used by the library's own
// TestNilValues) every value is read back as nil; the next rewrite of the node
// stores "null" for it, so the root of unchanged contents changes after a
// reload. With KeysLike == nil the keys are read back as nil and a version that
// MakeRoot returned without error cannot be loaded at all. V1Marshaler handles
// both configurations correctly.
//
// Where: codec.go decodeEfaceSlice `if body != nil && elemT != nil` leaves the
// element nil when KeysLike/ValuesLike is nil; unmarshalMastNode never looks at
// m.unmarshalerUsesRegisteredTypes.
// Repair: when elemT == nil decode into an interface{} (var x interface{};
// unmarshal(body, &x); out[i] = x) as unmarshalNodeWithRegisteredTypes does.
//
// Copy to the root of the mast repository (package mast) and run:
//
//	export GOFLAGS=-mod=mod GOPROXY=off GOSUMDB=off GOTOOLCHAIN=local; unset GOWORK
//	go test -count=1 -run 'TestH3RegisteredTypesV115' .
//
// Both tests FAIL on the unmodified tree (the v1marshaler sub-cases pass).
package mast

import (
	"context"
	"testing"
)

func TestH3RegisteredTypesV115Values(t *testing.T) {
	ctx := context.Background()
	for _, nf := range []nodeFormat{V1Marshaler, V115Binary} {
		store := NewInMemoryStore()
		cfg := &RemoteConfig{KeysLike: "", ValuesLike: nil, StoreImmutablePartsWith: store, UnmarshalerUsesRegisteredTypes: true}
		a, err := NewRoot(&CreateRemoteOptions{BranchFactor: 4, NodeFormat: nf}).LoadMast(ctx, cfg)
		if err != nil {
			t.Fatal(err)
		}
		if err := a.Insert(ctx, "a", "zazz"); err != nil {
			t.Fatal(err)
		}
		r0, err := a.MakeRoot(ctx)
		if err != nil {
			t.Fatal(err)
		}
		b, err := r0.LoadMast(ctx, cfg)
		if err != nil {
			t.Fatal(err)
		}
		var v interface{}
		if ok, err := b.Get(ctx, "a", &v); err != nil || !ok || v != "zazz" {
			t.Errorf("%s: after reload Get(a) = %v, %v, %v; want zazz", nf, ok, v, err)
		}
		// touch the node: insert and delete another key
		if err := b.Insert(ctx, "b", "x"); err != nil {
			t.Fatal(err)
		}
		if err := b.Delete(ctx, "b", "x"); err != nil {
			t.Fatal(err)
		}
		r1, err := b.MakeRoot(ctx)
		if err != nil {
			t.Fatal(err)
		}
		if *r0.Link != *r1.Link {
			t.Errorf("%s: contents {a:zazz} unchanged, but root %s became %s after reload + insert/delete of another key", nf, *r0.Link, *r1.Link)
		}
	}
}

func TestH3RegisteredTypesV115Keys(t *testing.T) {
	ctx := context.Background()
	for _, nf := range []nodeFormat{V1Marshaler, V115Binary} {
		store := NewInMemoryStore()
		cfg := &RemoteConfig{KeysLike: nil, ValuesLike: nil, StoreImmutablePartsWith: store, UnmarshalerUsesRegisteredTypes: true}
		a, err := NewRoot(&CreateRemoteOptions{BranchFactor: 4, NodeFormat: nf}).LoadMast(ctx, cfg)
		if err != nil {
			t.Fatal(err)
		}
		a.Insert(ctx, "a", "1")
		a.Insert(ctx, "b", "2")
		r, err := a.MakeRoot(ctx)
		if err != nil {
			t.Fatal(err)
		}
		if _, err = r.LoadMast(ctx, cfg); err != nil {
			t.Errorf("%s: persisted version (size %d) cannot be loaded: %v", nf, r.Size, err)
		}
	}
}
