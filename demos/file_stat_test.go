package file
import ("testing";"context";"os";"path/filepath")
func TestProbeStatSwallowed(t *testing.T){
 d:=t.TempDir()
 f:=filepath.Join(d,"notadir"); os.WriteFile(f,[]byte("x"),0644)
 p:=NewPersistForPath(f) // base path is a regular file: Stat gives ENOTDIR, not ENOENT
 err:=p.Store(context.Background(),"n1",[]byte("data"))
 _,lerr:=p.Load(context.Background(),"n1")
 t.Logf("store err=%v ; load err=%v",err,lerr)
}
