package mast

import (
	"context"
	"testing"
)

// C04: two trees holding the same entries must persist to identical roots whatever the history.
func TestC04ShrinkBoundary(t *testing.T) {
	ctx := context.Background()
	for _, bf := range []uint{3, 4, 16} {
		n := int(bf * bf) // bf^2 entries: height must be the same however we got there
		mk := func() *Mast {
			store := NewInMemoryStore()
			m, err := NewRoot(&CreateRemoteOptions{BranchFactor: bf}).LoadMast(ctx, &RemoteConfig{KeysLike: 0, ValuesLike: "", StoreImmutablePartsWith: store})
			if err != nil {
				t.Fatal(err)
			}
			return m
		}
		a := mk()
		for i := 0; i < n; i++ {
			if err := a.Insert(ctx, i, ""); err != nil {
				t.Fatal(err)
			}
		}
		b := mk()
		for i := 0; i < n+1; i++ {
			if err := b.Insert(ctx, i, ""); err != nil {
				t.Fatal(err)
			}
		}
		if err := b.Delete(ctx, n, ""); err != nil {
			t.Fatal(err)
		}
		ra, err := a.MakeRoot(ctx)
		if err != nil {
			t.Fatal(err)
		}
		rb, err := b.MakeRoot(ctx)
		if err != nil {
			t.Fatal(err)
		}
		if *ra.Link != *rb.Link || ra.Height != rb.Height || ra.Size != rb.Size {
			t.Errorf("bf=%d: same %d entries, different roots: insert-only {h=%d size=%d %s} vs insert+delete {h=%d size=%d %s}", bf, n, ra.Height, ra.Size, *ra.Link, rb.Height, rb.Size, *rb.Link)
		}
	}
}
