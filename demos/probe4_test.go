package mast

import (
	"context"
	"errors"
	"fmt"
	"testing"
)

func TestProbe4Backward(t *testing.T) {
	m := NewInMemory()
	m.branchFactor = 4
	m.growAfterSize = 4
	keys := []int{3, 4, 5, 7, 16, 17, 21, 33, 35, 48, 50, 64, 65, 70, 71, 90, 100, 101, 130}
	for _, k := range keys {
		m.Insert(ctx, k, k)
	}
	t.Logf("height %d", m.Height())
	c, _ := m.Cursor(ctx)
	c.Max(ctx)
	s := ""
	for i := 0; i < 45; i++ {
		k, _, ok := c.Get()
		if !ok {
			s += "| "
			break
		}
		s += fmt.Sprintf("%v ", k)
		var err error
		func() {
			defer func() {
				if r := recover(); r != nil {
					s += fmt.Sprintf("PANIC(%v)", r)
				}
			}()
			err = c.Backward(ctx)
		}()
		if err != nil {
			s += "ERR:" + err.Error()
			break
		}
	}
	t.Logf("backward: %s", s)
}

type failStore struct {
	Persist
	fail map[int]bool
	n    int
}

func (f *failStore) Store(ctx context.Context, k string, v []byte) error {
	f.n++
	if f.fail[f.n] {
		return errors.New("injected")
	}
	return f.Persist.Store(ctx, k, v)
}

func TestProbe4FlushRetry(t *testing.T) {
	inner := NewInMemoryStore()
	fs := &failStore{Persist: inner, fail: map[int]bool{1: true, 2: true, 3: true}}
	m := probeTree(t, 4, nil, fs)
	for k := 1; k <= 20; k++ {
		m.Insert(ctx, k, k)
	}
	_, err := m.MakeRoot(ctx)
	t.Logf("first MakeRoot: %v (stores attempted %d)", err, fs.n)
	t.Logf("contents after failed flush: %q", contents(m))
	r, err := m.MakeRoot(ctx)
	t.Logf("second MakeRoot: %v root=%v (stores attempted %d)", err, r, fs.n)
	if err == nil {
		l, err := r.LoadMast(ctx, &RemoteConfig{KeysLike: 0, ValuesLike: 0, StoreImmutablePartsWith: inner})
		if err != nil {
			t.Logf("reload: %v", err)
		} else {
			t.Logf("reload contents: %q", contents(l))
		}
	}
}

type rawStore struct{ m map[string][]byte }

func (r rawStore) Store(ctx context.Context, k string, v []byte) error { r.m[k] = v; return nil }
func (r rawStore) Load(ctx context.Context, k string) ([]byte, error) {
	if v, ok := r.m[k]; ok {
		return v, nil
	}
	return nil, errors.New("nf")
}
func (r rawStore) NodeURLPrefix() string { return "raw" }

func TestProbe4LoadPanics(t *testing.T) {
	defer func() { t.Logf("recovered: %v", recover()) }()
	rs := rawStore{map[string][]byte{}}
	// keys=2, values=2, links=2 (mismatch)
	node := mastNode{Node: Node{Key: []interface{}{1, 2}, Value: []interface{}{1, 2}, Link: []interface{}{"a", "b"}}}
	b, _ := marshalMastNode(&node, defaultMarshal)
	rs.m["x"] = b
	l := "x"
	r := Root{Link: &l, Size: 2, Height: 0, BranchFactor: 4, NodeFormat: string(V115Binary)}
	_, err := r.LoadMast(ctx, &RemoteConfig{KeysLike: 0, ValuesLike: 0, StoreImmutablePartsWith: rs})
	t.Logf("loadmast mismatched: %v", err)
}
