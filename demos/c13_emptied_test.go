package mast

import (
	"context"
	"testing"
)

// C13: "A tree reports itself clean only if its contents equal that version."
func TestC13EmptiedTreeIsDirty(t *testing.T) {
	ctx := context.Background()
	store := NewInMemoryStore()
	cfg := &RemoteConfig{KeysLike: 0, ValuesLike: "", StoreImmutablePartsWith: store}
	m, err := NewRoot(&CreateRemoteOptions{BranchFactor: 4}).LoadMast(ctx, cfg)
	if err != nil {
		t.Fatal(err)
	}
	for i := 0; i < 3; i++ {
		if err := m.Insert(ctx, i, "v"); err != nil {
			t.Fatal(err)
		}
	}
	root, err := m.MakeRoot(ctx)
	if err != nil {
		t.Fatal(err)
	}
	m2, err := root.LoadMast(ctx, cfg)
	if err != nil {
		t.Fatal(err)
	}
	if m2.IsDirty() {
		t.Fatalf("freshly loaded tree reports dirty")
	}
	for i := 0; i < 3; i++ {
		if err := m2.Delete(ctx, i, "v"); err != nil {
			t.Fatal(err)
		}
	}
	if m2.Size() != 0 {
		t.Fatalf("size %d", m2.Size())
	}
	if !m2.IsDirty() {
		t.Errorf("tree loaded with 3 entries and emptied reports itself clean")
	}
	// persisting it makes it clean again, and the empty root loads as an empty tree
	r2, err := m2.MakeRoot(ctx)
	if err != nil {
		t.Fatal(err)
	}
	if m2.IsDirty() {
		t.Errorf("tree reports dirty right after MakeRoot")
	}
	if r2.Link != nil || r2.Size != 0 {
		t.Errorf("emptied tree persisted as %+v", r2)
	}
	// an empty tree that was never modified is clean
	m3, err := r2.LoadMast(ctx, cfg)
	if err != nil {
		t.Fatal(err)
	}
	if m3.IsDirty() {
		t.Errorf("never-modified empty tree reports dirty")
	}
}
