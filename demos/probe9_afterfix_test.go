package mast

import "testing"

func TestProbe9EmptyCursorAfterFix(t *testing.T) {
	for _, mk := range []func() Mast{
		func() Mast { return NewInMemory() },
		func() Mast { m := NewInMemory(); m.Insert(ctx, 1, 1); m.Delete(ctx, 1, 1); return m },
	} {
		for _, seq := range [][]string{{"max", "back"}, {"max", "fwd"}, {"min", "back"}, {"ceil", "back"}, {"max", "max", "back", "fwd"}} {
			func() {
				defer func() {
					if r := recover(); r != nil {
						t.Errorf("%v: PANIC %v", seq, r)
					}
				}()
				m := mk()
				c, _ := m.Cursor(ctx)
				for _, op := range seq {
					switch op {
					case "max":
						c.Max(ctx)
					case "min":
						c.Min(ctx)
					case "back":
						c.Backward(ctx)
					case "fwd":
						c.Forward(ctx)
					case "ceil":
						c.Ceil(ctx, 3)
					}
					if _, _, ok := c.Get(); ok {
						t.Errorf("%v: got entry on empty tree", seq)
					}
				}
			}()
		}
	}
}
