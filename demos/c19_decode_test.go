package mast

import (
	"context"
	"encoding/binary"
	"testing"
)

// C19: loading a root whose top node is undecodable or has mismatched entry and link counts fails with an error.
func loadCrafted(t *testing.T, format string, nodeBytes []byte) (err error, panicked interface{}) {
	t.Helper()
	ctx := context.Background()
	store := NewInMemoryStore()
	name := "crafted"
	if e := store.Store(ctx, name, nodeBytes); e != nil {
		t.Fatal(e)
	}
	root := Root{Link: &name, Size: 2, Height: 0, BranchFactor: 4, NodeFormat: format}
	defer func() { panicked = recover() }()
	_, err = root.LoadMast(ctx, &RemoteConfig{KeysLike: 0, ValuesLike: "", StoreImmutablePartsWith: store})
	return err, nil
}

func TestC19HugeLengthIsAnError(t *testing.T) {
	var b [binary.MaxVarintLen64]byte
	n := binary.PutUvarint(b[:], 1<<63) // a count that does not fit an int
	err, p := loadCrafted(t, string(V115Binary), b[:n])
	if p != nil {
		t.Fatalf("LoadMast panicked on an undecodable top node: %v", p)
	}
	if err == nil {
		t.Fatalf("LoadMast accepted an undecodable top node")
	}
}

func TestC19LinkCountMismatchV1(t *testing.T) {
	// two keys, two values, FOUR links (must be three)
	tooMany := []byte(`{"Key":[1,2],"Value":["a","b"],"Link":["x","y","z","w"]}`)
	err, p := loadCrafted(t, string(V1Marshaler), tooMany)
	if p != nil {
		t.Errorf("LoadMast panicked on a top node with too many links: %v", p)
	} else if err == nil {
		t.Errorf("LoadMast accepted a top node with too many links")
	}
	// two keys, two values, TWO links
	tooFew := []byte(`{"Key":[1,2],"Value":["a","b"],"Link":["x","y"]}`)
	err, p = loadCrafted(t, string(V1Marshaler), tooFew)
	if p != nil {
		t.Errorf("LoadMast panicked on a top node with too few links: %v", p)
	} else if err == nil {
		t.Errorf("LoadMast accepted a top node with too few links")
	}
}
