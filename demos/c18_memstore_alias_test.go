// H7 finding 1 (C18): the in-memory store keeps the caller's slice and hands out its own.
//
// Copy to the repository root (package mast) and run:
//   go test -run 'TestH7MemAlias' .
// Fails on the unmodified tree (fae5611).
package mast

import (
	"context"
	"testing"
)

// After Store succeeded the store must hold those bytes, whatever the caller
// does with its buffer afterwards (the file and S3 stores do).
func TestH7MemAliasStoreArgument(t *testing.T) {
	ctx := context.Background()
	p := NewInMemoryStore()
	buf := []byte("node-bytes")
	if err := p.Store(ctx, "n", buf); err != nil {
		t.Fatal(err)
	}
	copy(buf, "XXXXXXXXXX") // the caller reuses its buffer
	got, err := p.Load(ctx, "n")
	if err != nil {
		t.Fatal(err)
	}
	if string(got) != "node-bytes" {
		t.Errorf("after Store(n, %q) succeeded and the caller reused its buffer, Load(n) = %q", "node-bytes", got)
	}
}

// What one reader does to the slice it got from Load must not change what
// the next reader gets.
func TestH7MemAliasLoadResult(t *testing.T) {
	ctx := context.Background()
	p := NewInMemoryStore()
	if err := p.Store(ctx, "n", []byte("node-bytes")); err != nil {
		t.Fatal(err)
	}
	got, _ := p.Load(ctx, "n")
	copy(got, "YYYYYYYYYY")
	again, err := p.Load(ctx, "n")
	if err != nil {
		t.Fatal(err)
	}
	if string(again) != "node-bytes" {
		t.Errorf("after a reader modified the slice returned by Load, a second Load(n) = %q, want %q", again, "node-bytes")
	}
}
