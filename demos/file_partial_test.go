package file
import ("testing";"context";"os";"path/filepath")
func TestProbePartial(t *testing.T){
 d:=t.TempDir()
 p:=NewPersistForPath(d)
 os.WriteFile(filepath.Join(d,"n1"),[]byte("par"),0644) // simulated crash mid-write
 err:=p.Store(context.Background(),"n1",[]byte("partial-complete"))
 b,_:=p.Load(context.Background(),"n1")
 t.Logf("store err=%v load=%q",err,b)
}
