// H4-1 (C11, C02): a NodeCache shared by trees whose Go key (or value) types differ
// but serialize identically hands one tree the other tree's decoded nodes.
//
// Copy to the repository root (package mast) and run:
//   export GOFLAGS=-mod=mod GOPROXY=off GOSUMDB=off GOTOOLCHAIN=local; unset GOWORK
//   go test -count=1 -run 'TestH4HeteroCache' .
// FAILS on the unmodified tree (the cache=true cases); the cache=false cases pass.
package mast

import (
	"context"
	"testing"
)

// Tree A has int keys, tree B has int64 keys. Both hold {1,2,3} -> "x"; their nodes
// serialize to the same bytes, hence the same name, hence the same cache key
// "<store prefix>/<hash>". Whichever tree persisted first leaves ITS decoded node
// (with ITS Go key type) in the cache; the other tree then reads keys of the wrong type.
func TestH4HeteroCacheKeys(t *testing.T) {
	ctx := context.Background()
	for _, withCache := range []bool{false, true} {
		store := NewInMemoryStore()
		var cache NodeCache
		if withCache {
			cache = NewNodeCache(100)
		}
		cfgA := &RemoteConfig{KeysLike: int(0), ValuesLike: "", StoreImmutablePartsWith: store, NodeCache: cache}
		cfgB := &RemoteConfig{KeysLike: int64(0), ValuesLike: "", StoreImmutablePartsWith: store, NodeCache: cache}
		a, err := NewRoot(&CreateRemoteOptions{BranchFactor: 4}).LoadMast(ctx, cfgA)
		if err != nil {
			t.Fatal(err)
		}
		b, err := NewRoot(&CreateRemoteOptions{BranchFactor: 4}).LoadMast(ctx, cfgB)
		if err != nil {
			t.Fatal(err)
		}
		for i := 1; i <= 3; i++ {
			if err := a.Insert(ctx, int(i), "x"); err != nil {
				t.Fatal(err)
			}
			if err := b.Insert(ctx, int64(i), "x"); err != nil {
				t.Fatal(err)
			}
		}
		if _, err := a.MakeRoot(ctx); err != nil { // A's node enters the cache
			t.Fatal(err)
		}
		rb, err := b.MakeRoot(ctx) // same name: "already persisted", nothing added
		if err != nil {
			t.Fatal(err)
		}
		// B re-opens ITS OWN root, with ITS OWN configuration
		b2, err := rb.LoadMast(ctx, cfgB)
		if err != nil {
			t.Errorf("cache=%v: LoadMast of B's own root: %v", withCache, err)
			continue
		}
		var v string
		ok, err := b2.Get(ctx, int64(2), &v)
		if err != nil || !ok || v != "x" {
			t.Errorf("cache=%v: B.Get(int64(2)) = present=%v value=%q err=%v; want true,\"x\",nil (as when B runs alone)", withCache, ok, v, err)
		}
		if err := b2.Insert(ctx, int64(2), "y"); err != nil {
			t.Errorf("cache=%v: B.Insert(int64(2)): %v", withCache, err)
		}
	}
}

type h4Counter struct{ N int }

// Same with value types: map[string]int and struct{N int} both encode as {"N":1}.
// Here the reader does not get an error but a panic out of Get (reflect.Set of a
// map into a *struct).
func TestH4HeteroCacheValues(t *testing.T) {
	ctx := context.Background()
	for _, withCache := range []bool{false, true} {
		store := NewInMemoryStore()
		var cache NodeCache
		if withCache {
			cache = NewNodeCache(100)
		}
		cfgA := &RemoteConfig{KeysLike: 0, ValuesLike: map[string]int{}, StoreImmutablePartsWith: store, NodeCache: cache}
		cfgB := &RemoteConfig{KeysLike: 0, ValuesLike: h4Counter{}, StoreImmutablePartsWith: store, NodeCache: cache}
		a, _ := NewRoot(&CreateRemoteOptions{BranchFactor: 4}).LoadMast(ctx, cfgA)
		b, _ := NewRoot(&CreateRemoteOptions{BranchFactor: 4}).LoadMast(ctx, cfgB)
		if err := a.Insert(ctx, 1, map[string]int{"N": 1}); err != nil {
			t.Fatal(err)
		}
		if err := b.Insert(ctx, 1, h4Counter{1}); err != nil {
			t.Fatal(err)
		}
		if _, err := a.MakeRoot(ctx); err != nil {
			t.Fatal(err)
		}
		rb, err := b.MakeRoot(ctx)
		if err != nil {
			t.Fatal(err)
		}
		b2, err := rb.LoadMast(ctx, cfgB)
		if err != nil {
			t.Fatal(err)
		}
		func() {
			defer func() {
				if p := recover(); p != nil {
					t.Errorf("cache=%v: B.Get panicked: %v", withCache, p)
				}
			}()
			var v h4Counter
			ok, err := b2.Get(ctx, 1, &v)
			if err != nil || !ok || v.N != 1 {
				t.Errorf("cache=%v: B.Get(1) = %v,%+v,%v; want true,{N:1},nil", withCache, ok, v, err)
			}
		}()
	}
}
