package mast

// C12 (retry clause) for the navigation and diff-cursor calls:
//   "... the same call succeeds with the normal result when retried after the
//    fault has cleared."
//
// Each test builds persisted multi-level trees (branch factor 4, int keys,
// no node cache so every step really hits Persist.Load), then for every k
// that occurs during the call makes the k-th Load fail exactly once, retries
// the same call, and compares the outcome to an undisturbed call.

import (
	"context"
	"errors"
	"fmt"
	"strings"
	"testing"
)

var errC12Injected = errors.New("c12: injected load fault")

type c12FaultStore struct {
	Persist
	count  int // loads seen since last arm()
	failAt int // fail the failAt-th load once; 0 = disarmed
	fired  bool
}

func (s *c12FaultStore) Load(ctx context.Context, name string) ([]byte, error) {
	s.count++
	if s.failAt > 0 && s.count == s.failAt {
		s.failAt = 0
		s.fired = true
		return nil, errC12Injected
	}
	return s.Persist.Load(ctx, name)
}

func (s *c12FaultStore) arm(k int) {
	s.count = 0
	s.failAt = k
	s.fired = false
}

type c12Tree struct {
	name string
	keys []int
}

func c12Trees() []c12Tree {
	var a, b, small []int
	for i := 1; i <= 40; i++ {
		a = append(a, i)
	}
	for i := 1; i <= 60; i++ {
		if i%3 != 0 {
			b = append(b, i)
		}
	}
	for i := 1; i <= 17; i++ {
		small = append(small, i)
	}
	return []c12Tree{{"1..17", small}, {"1..40", a}, {"1..60 without multiples of 3", b}}
}

func c12Cfg(store Persist) *RemoteConfig {
	return &RemoteConfig{KeysLike: 0, ValuesLike: 0, StoreImmutablePartsWith: store}
}

// c12Persist builds a tree holding kv and persists it, returning its Root.
func c12Persist(t *testing.T, store Persist, kv map[int]int, order []int) *Root {
	t.Helper()
	ctx := context.Background()
	m, err := NewRoot(&CreateRemoteOptions{BranchFactor: 4}).LoadMast(ctx, c12Cfg(store))
	if err != nil {
		t.Fatalf("LoadMast(empty): %v", err)
	}
	for _, k := range order {
		if err := m.Insert(ctx, k, kv[k]); err != nil {
			t.Fatalf("Insert(%d): %v", k, err)
		}
	}
	root, err := m.MakeRoot(ctx)
	if err != nil {
		t.Fatalf("MakeRoot: %v", err)
	}
	return root
}

func c12Load(t *testing.T, store Persist, root *Root) *Mast {
	t.Helper()
	m, err := root.LoadMast(context.Background(), c12Cfg(store))
	if err != nil {
		t.Fatalf("LoadMast: %v", err)
	}
	return m
}

func c12Simple(keys []int) map[int]int {
	kv := map[int]int{}
	for _, k := range keys {
		kv[k] = k * 10
	}
	return kv
}

func c12Pos(c *Cursor) string {
	k, v, ok := c.Get()
	if !ok {
		return "<no entry>"
	}
	return fmt.Sprintf("%v=%v", k, v)
}

func c12Path(c *Cursor) string {
	var parts []string
	for _, pe := range c.path {
		parts = append(parts, fmt.Sprintf("%v@%d", pe.node.Key, pe.linkIndex))
	}
	return "[" + strings.Join(parts, " ") + "]"
}

type c12Setup struct {
	desc string
	fn   func(context.Context, *Cursor) error
}

func c12Setups(keys []int) []c12Setup {
	out := []c12Setup{{"fresh cursor", func(context.Context, *Cursor) error { return nil }}}
	for _, k := range keys {
		k := k
		out = append(out, c12Setup{fmt.Sprintf("cursor at Ceil(%d)", k),
			func(ctx context.Context, c *Cursor) error { return c.Ceil(ctx, k) }})
	}
	return out
}

// c12Nav checks the retry clause for one navigation call over all trees,
// all given starting positions and every k.
func c12Nav(t *testing.T, call string,
	setups func(keys []int) []c12Setup,
	calls func(keys []int) []c12Setup, // the call(s) under test, with description
) {
	ctx := context.Background()
	for _, tr := range c12Trees() {
		fs := &c12FaultStore{Persist: NewInMemoryStore()}
		root := c12Persist(t, fs, c12Simple(tr.keys), tr.keys)
		m := c12Load(t, fs, root)
		if m.Height() < 2 {
			t.Fatalf("tree %s: height %d < 2", tr.name, m.Height())
		}
		faults, maxLoads := 0, 0
		for _, su := range setups(tr.keys) {
			for _, cl := range calls(tr.keys) {
				newCursor := func() *Cursor {
					fs.arm(0)
					c, err := m.Cursor(ctx)
					if err != nil {
						t.Fatalf("Cursor: %v", err)
					}
					if err := su.fn(ctx, c); err != nil {
						t.Fatalf("setup %s: %v", su.desc, err)
					}
					return c
				}
				// undisturbed
				c := newCursor()
				start, startPath := c12Pos(c), c12Path(c)
				fs.arm(0)
				if err := cl.fn(ctx, c); err != nil {
					t.Fatalf("undisturbed %s: %v", cl.desc, err)
				}
				n := fs.count
				want, wantPath := c12Pos(c), c12Path(c)
				if n > maxLoads {
					maxLoads = n
				}
				for k := 1; k <= n; k++ {
					c := newCursor()
					fs.arm(k)
					err := cl.fn(ctx, c)
					if !fs.fired {
						t.Fatalf("%s: tree %s, %s, k=%d: fault did not fire (test artefact)", cl.desc, tr.name, su.desc, k)
					}
					faults++
					where := fmt.Sprintf("%s: tree {%s}, %s (at %s, path %s), Load #%d of %d fails once",
						cl.desc, tr.name, su.desc, start, startPath, k, n)
					if err == nil {
						// fault swallowed: no error reported, so only the result matters
						if got := c12Pos(c); got != want {
							t.Errorf("%s: call returned nil despite fault; expected %s, obtained %s", where, want, got)
						}
						continue
					}
					if !errors.Is(err, errC12Injected) {
						t.Errorf("%s: unexpected error %v", where, err)
					}
					mid, midPath := c12Pos(c), c12Path(c)
					fs.arm(0)
					if err := cl.fn(ctx, c); err != nil {
						t.Errorf("%s: RETRY returned error %v", where, err)
						continue
					}
					got, gotPath := c12Pos(c), c12Path(c)
					if got != want {
						t.Errorf("RETRY CLAUSE VIOLATED %s: expected %s (path %s), obtained %s (path %s); after the failed call cursor was at %s (path %s)",
							where, want, wantPath, got, gotPath, mid, midPath)
					} else if gotPath != wantPath {
						t.Errorf("RETRY CLAUSE VIOLATED (same Get, different path) %s: expected path %s, obtained %s",
							where, wantPath, gotPath)
					}
				}
			}
		}
		t.Logf("%s: tree {%s} height=%d size=%d: %d single-fault scenarios, max loads per call %d",
			call, tr.name, m.Height(), m.Size(), faults, maxLoads)
		if faults == 0 {
			t.Errorf("%s: tree %s: no fault scenario exercised", call, tr.name)
		}
	}
}

func c12One(desc string, fn func(context.Context, *Cursor) error) func([]int) []c12Setup {
	return func([]int) []c12Setup { return []c12Setup{{desc, fn}} }
}

func TestC12Nav_Min(t *testing.T) {
	c12Nav(t, "Min", c12Setups, c12One("Min", func(ctx context.Context, c *Cursor) error { return c.Min(ctx) }))
}

func TestC12Nav_Max(t *testing.T) {
	c12Nav(t, "Max", c12Setups, c12One("Max", func(ctx context.Context, c *Cursor) error { return c.Max(ctx) }))
}

func TestC12Nav_Forward(t *testing.T) {
	c12Nav(t, "Forward", c12Setups, c12One("Forward", func(ctx context.Context, c *Cursor) error { return c.Forward(ctx) }))
}

func TestC12Nav_Backward(t *testing.T) {
	c12Nav(t, "Backward", c12Setups, c12One("Backward", func(ctx context.Context, c *Cursor) error { return c.Backward(ctx) }))
}

func TestC12Nav_Ceil(t *testing.T) {
	fresh := func([]int) []c12Setup {
		return []c12Setup{{"fresh cursor", func(context.Context, *Cursor) error { return nil }}}
	}
	targets := func(keys []int) []c12Setup {
		var out []c12Setup
		for k := 0; k <= keys[len(keys)-1]+1; k++ {
			k := k
			out = append(out, c12Setup{fmt.Sprintf("Ceil(%d)", k),
				func(ctx context.Context, c *Cursor) error { return c.Ceil(ctx, k) }})
		}
		return out
	}
	c12Nav(t, "Ceil", fresh, targets)
}

func c12DiffString(d Diff) string {
	ty := map[DiffType]string{DiffType_Add: "add", DiffType_Remove: "remove", DiffType_Change: "change"}[d.Type]
	return fmt.Sprintf("%s %v (old=%v new=%v)", ty, d.Key, d.OldValue, d.NewValue)
}

func TestC12Nav_NextEntry(t *testing.T) {
	ctx := context.Background()
	type scen struct {
		name     string
		oldKV    map[int]int // nil: StartDiff(ctx, nil)
		newKV    map[int]int
		expected int // number of diffs, sanity check of the undisturbed run
	}
	order := func(kv map[int]int) []int {
		var ks []int
		for k := 0; k <= 100; k++ {
			if _, ok := kv[k]; ok {
				ks = append(ks, k)
			}
		}
		return ks
	}
	var scens []scen
	for _, tr := range c12Trees() {
		base := c12Simple(tr.keys)
		scens = append(scens, scen{"old=nil, new={" + tr.name + "}", nil, base, len(base)})
		mod := c12Simple(tr.keys)
		delete(mod, tr.keys[2])                // remove
		delete(mod, tr.keys[len(tr.keys)-2])   // remove
		mod[tr.keys[len(tr.keys)/2]] = -1      // change
		mod[tr.keys[len(tr.keys)-1]+5] = 12345 // add
		scens = append(scens, scen{"old={" + tr.name + "}, new=old with 2 removed, 1 changed, 1 added", base, mod, 4})
	}
	for _, sc := range scens {
		fs := &c12FaultStore{Persist: NewInMemoryStore()}
		newM := c12Load(t, fs, c12Persist(t, fs, sc.newKV, order(sc.newKV)))
		var oldM *Mast
		if sc.oldKV != nil {
			oldM = c12Load(t, fs, c12Persist(t, fs, sc.oldKV, order(sc.oldKV)))
		}
		if newM.Height() < 2 && (oldM == nil || oldM.Height() < 2) {
			t.Fatalf("%s: height %d < 2", sc.name, newM.Height())
		}
		// run drains the diff cursor, retrying NextEntry after every error.
		// It returns the reported diffs, and for the (single) injected fault the
		// index of the NextEntry call that returned the error (-1 if none did).
		run := func(k int) (seq []string, errCall int, errText string) {
			errCall = -1
			fs.arm(0)
			dc, err := newM.StartDiff(ctx, oldM)
			if err != nil {
				t.Fatalf("StartDiff: %v", err)
			}
			fs.arm(k)
			nErr := 0
			for call := 0; call < 10000; call++ {
				d, err := dc.NextEntry(ctx)
				if err == ErrNoMoreDiffs {
					return
				}
				if err != nil {
					nErr++
					if nErr > 1 {
						t.Fatalf("%s k=%d: more than one error from a single fault: %v", sc.name, k, err)
					}
					errCall, errText = call, err.Error()
					continue // retry the same call now that the fault has cleared
				}
				seq = append(seq, c12DiffString(d))
			}
			t.Fatalf("%s k=%d: diff did not terminate", sc.name, k)
			return
		}
		want, _, _ := run(0)
		total := fs.count
		if len(want) != sc.expected {
			t.Fatalf("%s: undisturbed diff reports %d entries, expected %d: %v", sc.name, len(want), sc.expected, want)
		}
		bad, swallowed := 0, 0
		for k := 1; k <= total; k++ {
			got, errCall, errText := run(k)
			if !fs.fired {
				t.Fatalf("%s k=%d of %d: fault did not fire (test artefact)", sc.name, k, total)
			}
			if errCall < 0 {
				swallowed++ // load error swallowed (alreadyNotified); no error => retry clause not triggered
			}
			if strings.Join(got, "; ") != strings.Join(want, "; ") {
				bad++
				if bad <= 3 {
					first := "<none>"
					for i := range want {
						if i >= len(got) || got[i] != want[i] {
							first = want[i]
							break
						}
					}
					t.Errorf("RETRY CLAUSE VIOLATED NextEntry: %s, Load #%d of %d fails once (error %q returned by NextEntry call #%d, which was then retried): expected %d diffs, obtained %d; first expected diff missing/mismatched: %s\n  expected: %v\n  obtained: %v",
						sc.name, k, total, errText, errCall, len(want), len(got), first, want, got)
				}
			}
		}
		if bad > 3 {
			t.Errorf("NextEntry: %s: ... %d of %d single-fault positions in total give a wrong diff sequence after retry", sc.name, bad, total)
		}
		t.Logf("NextEntry: %s: %d loads, %d faults swallowed without error, %d wrong sequences", sc.name, total, swallowed, bad)
	}
}
