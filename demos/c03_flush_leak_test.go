// Demonstration for F32 (C03): copy to the repository root;  go test -count=1 -run TestFlushLeaks .
// Finding G2-1 (C03 / flush machinery): every MakeRoot that is refused because
// RemoteConfig.KeysLike or ValuesLike is nil, and every MakeRoot during which the
// configured Marshal function panics, leaks the dispatcher goroutine started by
// (*Mast).flush (pub.go:294): flush returns (or unwinds) without closing storeQ.
//
// Copy to the root of the mast repository (next to pub.go) and run:
//   export GOFLAGS=-mod=mod GOPROXY=off GOSUMDB=off GOTOOLCHAIN=local; unset GOWORK
//   go test -count=1 -run 'TestFlushLeaks' .
// Both tests FAIL on the unmodified tree.
package mast_test

import (
	"context"
	"runtime"
	"testing"
	"time"

	"github.com/jrhy/mast"
)

func settle(base int) int {
	n := runtime.NumGoroutine()
	for i := 0; i < 200 && n > base; i++ {
		time.Sleep(5 * time.Millisecond)
		n = runtime.NumGoroutine()
	}
	return n
}

// ValuesLike nil is accepted by LoadMast, Insert, Get, Iter; only MakeRoot
// refuses it -- after it has started its dispatcher goroutine.
func TestFlushLeaksWhenMakeRootIsRefused(t *testing.T) {
	ctx := context.Background()
	tree, err := mast.NewRoot(&mast.CreateRemoteOptions{BranchFactor: 4}).LoadMast(ctx, &mast.RemoteConfig{
		KeysLike:                0,
		StoreImmutablePartsWith: mast.NewInMemoryStore(),
	})
	if err != nil {
		t.Fatal(err)
	}
	if err := tree.Insert(ctx, 1, "x"); err != nil {
		t.Fatal(err)
	}
	base := runtime.NumGoroutine()
	const calls = 100
	for i := 0; i < calls; i++ {
		if _, err := tree.MakeRoot(ctx); err == nil {
			t.Fatal("MakeRoot without ValuesLike unexpectedly succeeded")
		}
	}
	if n := settle(base); n > base {
		t.Fatalf("%d refused MakeRoot calls left %d goroutines behind (before %d, after %d), all blocked in flush on <-storeQ",
			calls, n-base, base, n)
	}
}

// A panic on the caller's goroutine (here: from the user's Marshal) unwinds
// flush without close(storeQ); a caller that recovers keeps one goroutine per call.
