// C03 — MakeRoot reports success although no node was written to the configured store:
// the NodeCache key of the in-memory store is its address ("%p"), which the allocator
// hands out again once the store is garbage; a shared NodeCache then believes that the
// nodes it saw in the dead store are present in the new one and skips every write.
//
// Copy to the root of the mast repository (package mast) and run:
//
//	GOFLAGS=-mod=mod go test -run TestH6InMemoryStorePrefixReuse -count=1 -v .
//
// FAILS on the unmodified tree (it would report SKIP if the allocator never reused the
// address within 200000 allocations; it reuses it after a few hundred here, every time).
package mast

import (
	"context"
	"runtime"
	"testing"
)

func h6f3BuildAndPersist(t *testing.T, store Persist, cache NodeCache) *Root {
	ctx := context.Background()
	m, err := NewRoot(&CreateRemoteOptions{BranchFactor: 4}).LoadMast(ctx, &RemoteConfig{
		KeysLike: 0, ValuesLike: "", StoreImmutablePartsWith: store, NodeCache: cache})
	if err != nil {
		t.Fatal(err)
	}
	for k := 1; k <= 100; k++ {
		if err := m.Insert(ctx, k, "v"); err != nil {
			t.Fatal(err)
		}
	}
	root, err := m.MakeRoot(ctx)
	if err != nil {
		t.Fatal(err)
	}
	return root
}

//go:noinline
func h6f3FirstStore(t *testing.T, cache NodeCache) string {
	s1 := NewInMemoryStore()
	h6f3BuildAndPersist(t, s1, cache)
	return s1.NodeURLPrefix()
}

func TestH6InMemoryStorePrefixReuse(t *testing.T) {
	ctx := context.Background()
	cache := NewNodeCache(10000) // shared by every tree of the program
	p1 := h6f3FirstStore(t, cache)
	// the first store is garbage now
	var keep []Persist
	for try := 0; try < 200000; try++ {
		if try%1000 == 0 {
			runtime.GC()
		}
		s2 := NewInMemoryStore()
		if s2.NodeURLPrefix() != p1 {
			keep = append(keep, s2) // alive, so that its address is not handed out again at once
			if len(keep) > 5000 {
				keep = keep[:0]
			}
			continue
		}
		t.Logf("a new in-memory store got the NodeURLPrefix %s of the dead one (after %d allocations)", p1, try)
		root := h6f3BuildAndPersist(t, s2, cache) // MakeRoot reports success
		m, err := root.LoadMast(ctx, &RemoteConfig{KeysLike: 0, ValuesLike: "", StoreImmutablePartsWith: s2})
		if err != nil {
			t.Fatalf("MakeRoot succeeded on the new store, but the root is not in it: %v", err)
		}
		n := 0
		err = m.Iter(ctx, func(_, _ interface{}) error { n++; return nil })
		if err != nil || n != 100 {
			t.Fatalf("MakeRoot succeeded on the new store, but the tree is not in it: n=%d err=%v", n, err)
		}
		return
	}
	t.Skip("the address was not reused; no verdict")
}
