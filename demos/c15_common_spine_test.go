// C15 — diff loads nodes that are common to both versions (more than 2*D+2 reads).
//
// Copy to the root of the mast repository (package mast) and run:
//
//	GOFLAGS=-mod=mod go test -run TestH6DiffLoadsCommonSpine -count=1 -v .
//
// FAILS on the unmodified tree.
package mast

import (
	"context"
	"fmt"
	"sync"
	"testing"
)

type h6f1Store struct {
	mu     sync.Mutex
	data   map[string][]byte
	loaded map[string]bool
}

func (s *h6f1Store) Store(_ context.Context, name string, b []byte) error {
	s.mu.Lock()
	defer s.mu.Unlock()
	s.data[name] = append([]byte{}, b...)
	return nil
}
func (s *h6f1Store) Load(_ context.Context, name string) ([]byte, error) {
	s.mu.Lock()
	defer s.mu.Unlock()
	b, ok := s.data[name]
	if !ok {
		return nil, fmt.Errorf("%s not found", name)
	}
	s.loaded[name] = true
	return b, nil
}
func (s *h6f1Store) NodeURLPrefix() string { return "h6f1" }

// names of all the nodes of a persisted version
func h6f1Nodes(t *testing.T, m *Mast, link interface{}, into map[string]bool) {
	if link == nil {
		return
	}
	into[link.(string)] = true
	n, err := m.load(context.Background(), link)
	if err != nil {
		t.Fatal(err)
	}
	for _, l := range n.Link {
		h6f1Nodes(t, m, l, into)
	}
}

func TestH6DiffLoadsCommonSpine(t *testing.T) {
	// smallest case found: 39 keys, height 5: 7 reads for D=2
	t.Run("keys 32..70", func(t *testing.T) { h6f1Run(t, 32, 70) })
	// the excess grows with the height: 12 reads for D=2
	t.Run("keys 1024..2100", func(t *testing.T) { h6f1Run(t, 1024, 2100) })
}

// the tree holds lo..hi; lo is a multiple of a high power of 2, so that with branch
// factor 2 it is the smallest key AND lives in the root: its left link is nil, its
// right subtree is as deep as the tree. Deleting it changes two nodes: the roots.
func h6f1Run(t *testing.T, lo, hi int) {
	ctx := context.Background()
	s := &h6f1Store{data: map[string][]byte{}, loaded: map[string]bool{}}
	cfg := &RemoteConfig{KeysLike: 0, ValuesLike: "", StoreImmutablePartsWith: s}
	m, err := NewRoot(&CreateRemoteOptions{BranchFactor: 2}).LoadMast(ctx, cfg)
	if err != nil {
		t.Fatal(err)
	}
	for k := lo; k <= hi; k++ {
		if err := m.Insert(ctx, k, "v"); err != nil {
			t.Fatal(err)
		}
	}
	oldRoot, err := m.MakeRoot(ctx)
	if err != nil {
		t.Fatal(err)
	}
	if err := m.Delete(ctx, lo, "v"); err != nil {
		t.Fatal(err)
	}
	newRoot, err := m.MakeRoot(ctx)
	if err != nil {
		t.Fatal(err)
	}
	if oldRoot.Height != newRoot.Height {
		t.Fatalf("height changed %d -> %d", oldRoot.Height, newRoot.Height)
	}
	om, err := oldRoot.LoadMast(ctx, cfg)
	if err != nil {
		t.Fatal(err)
	}
	nm, err := newRoot.LoadMast(ctx, cfg)
	if err != nil {
		t.Fatal(err)
	}
	oldNodes, newNodes := map[string]bool{}, map[string]bool{}
	h6f1Nodes(t, om, *oldRoot.Link, oldNodes)
	h6f1Nodes(t, nm, *newRoot.Link, newNodes)
	D := 0
	for n := range oldNodes {
		if !newNodes[n] {
			D++
		}
	}
	for n := range newNodes {
		if !oldNodes[n] {
			D++
		}
	}

	s.loaded = map[string]bool{}
	var diffs []string
	err = nm.DiffIter(ctx, om, func(added, removed bool, k, av, rv interface{}) (bool, error) {
		diffs = append(diffs, fmt.Sprint(added, removed, k))
		return true, nil
	})
	if err != nil {
		t.Fatal(err)
	}
	if len(diffs) != 1 || diffs[0] != fmt.Sprint("false true ", lo) {
		t.Fatalf("unexpected diff %v", diffs)
	}
	common := 0
	for n := range s.loaded {
		if oldNodes[n] && newNodes[n] {
			common++
		}
	}
	t.Logf("tree of %d nodes, height %d; D=%d nodes belong to exactly one version; diff read %d distinct nodes, %d of them common to both versions",
		len(oldNodes), oldRoot.Height, D, len(s.loaded), common)
	if len(s.loaded) > 2*D+2 {
		t.Errorf("diff read %d distinct nodes > 2*D+2 = %d", len(s.loaded), 2*D+2)
	}
}
