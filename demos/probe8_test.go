package mast

import (
	"context"
	"encoding/json"
	"errors"
	"testing"
)

// F11a: Insert mutates the target node, then split fails.
func TestProbe8InsertSplitFault(t *testing.T) {
	fail := false
	cmp := func(a, b interface{}) (int, error) {
		if fail && a.(int) == 5 && b.(int) == 4 {
			return 0, errors.New("injected cmp")
		}
		return a.(int) - b.(int), nil
	}
	root := NewRoot(&CreateRemoteOptions{BranchFactor: 4})
	m, _ := root.LoadMast(ctx, &RemoteConfig{KeysLike: 0, ValuesLike: 0, StoreImmutablePartsWith: NewInMemoryStore(), KeyCompare: cmp})
	for _, k := range []int{1, 2, 3, 5, 6, 7, 8} {
		if err := m.Insert(ctx, k, k); err != nil {
			t.Fatal(err)
		}
	}
	before := contents(m)
	t.Logf("before: size=%d h=%d %s", m.Size(), m.Height(), before)
	fail = true
	err := m.Insert(ctx, 4, 4)
	fail = false
	t.Logf("insert 4: err=%v", err)
	func() {
		defer func() {
			if r := recover(); r != nil {
				t.Logf("PANIC reading after failed insert: %v", r)
			}
		}()
		t.Logf("after : size=%d h=%d %s", m.Size(), m.Height(), contents(m))
	}()
}

type skey struct{ A int }

// F11b: Insert installs the root, then canGrow/grow fails in the marshaler-based layer function.
func TestProbe8InsertGrowFault(t *testing.T) {
	failAt := -1
	n := 0
	marshal := func(v interface{}) ([]byte, error) {
		n++
		if failAt >= 0 && n >= failAt {
			return nil, errors.New("injected marshal")
		}
		return json.Marshal(v)
	}
	root := NewRoot(&CreateRemoteOptions{BranchFactor: 2})
	m, err := root.LoadMast(ctx, &RemoteConfig{KeysLike: skey{}, ValuesLike: 0, StoreImmutablePartsWith: NewInMemoryStore(), Marshal: marshal})
	if err != nil {
		t.Fatal(err)
	}
	// find, for each prefix, a marshal-call index whose failure lands in canGrow/grow
	for i := 0; i < 12; i++ {
		sizeBefore := m.Size()
		c0 := contents(m)
		// dry run to count calls
		clone, _ := m.Clone(ctx)
		n = 0
		failAt = -1
		clone.Insert(ctx, skey{i}, i)
		calls := n
		hit := false
		for f := calls; f >= 1 && !hit; f-- {
			c2, _ := m.Clone(ctx)
			n = 0
			failAt = f
			err := c2.Insert(ctx, skey{i}, i)
			failAt = -1
			if err != nil && c0 != contents(&c2) {
				t.Logf("key %d: fault at marshal call %d/%d: err=%v", i, f, calls, err)
				t.Logf("   before: size=%d %s", sizeBefore, c0)
				t.Logf("   after : size=%d %s", c2.Size(), contents(&c2))
				hit = true
			}
		}
		m.Insert(ctx, skey{i}, i)
		if hit {
			break
		}
	}
}

type flakyStore struct {
	Persist
	failLoad bool
}

func (f *flakyStore) Load(ctx context.Context, k string) ([]byte, error) {
	if f.failLoad {
		return nil, errors.New("injected load")
	}
	return f.Persist.Load(ctx, k)
}

// F11c: Delete installs the root and decrements size, then shrink's child load fails.
func TestProbe8DeleteShrinkFault(t *testing.T) {
	fs := &flakyStore{Persist: NewInMemoryStore()}
	m := probeTree(t, 4, nil, fs)
	for _, k := range []int{1, 2, 4, 5, 6} {
		m.Insert(ctx, k, k)
	}
	m.Delete(ctx, 6, 6)
	r, err := m.MakeRoot(ctx)
	if err != nil {
		t.Fatal(err)
	}
	m, _ = r.LoadMast(ctx, &RemoteConfig{KeysLike: 0, ValuesLike: 0, StoreImmutablePartsWith: fs})
	t.Logf("before: size=%d h=%d %s", m.Size(), m.Height(), contents(m))
	// warm: make the delete path itself loadable, then fail loads only inside shrink is not possible
	// selectively; instead fail all loads after the first N
	for allow := 0; allow < 8; allow++ {
		c, _ := m.Clone(ctx)
		cnt := 0
		fs2 := &countingFail{Persist: fs.Persist, allow: allow, cnt: &cnt}
		before := contents(&c)
		sz := c.Size()
		c.persist = fs2
		err := c.Delete(ctx, 2, 2)
		c.persist = fs.Persist
		if err != nil && (c.Size() != sz || contents(&c) != before) {
			t.Logf("allow=%d loads: Delete err=%v", allow, err)
			t.Logf("   before: size=%d %s", sz, before)
			t.Logf("   after : size=%d h=%d %s", c.Size(), c.Height(), contents(&c))
			return
		}
	}
	t.Logf("no corrupting fault position found")
}

type countingFail struct {
	Persist
	allow int
	cnt   *int
}

func (f *countingFail) Load(ctx context.Context, k string) ([]byte, error) {
	*f.cnt++
	if *f.cnt > f.allow {
		return nil, errors.New("injected load")
	}
	return f.Persist.Load(ctx, k)
}
