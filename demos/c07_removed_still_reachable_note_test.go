// OBSERVATION (property C07, "removed" side) -- not a violation of the letter of C07,
// but it makes the 'removed' stream of DiffLinks unusable for garbage collection.
//
// Copy to the root of the repository (package mast) and run:
//   go test -count=1 -run TestG4RemovedStillReachable .
// It FAILS on the unmodified tree: DiffLinks(new, old) reports node "[3]" as removed,
// although the new version still reaches that very node (through a new pass-through
// parent), and it does not report it as added either. Deleting the 'removed' names
// from a store (or: removed minus added) therefore destroys the new version.
package mast

import (
	"context"
	"testing"
)

func TestG4RemovedStillReachable(t *testing.T) {
	ctx := context.Background()
	store := NewInMemoryStore()
	cfg := &RemoteConfig{KeysLike: 0, ValuesLike: "", StoreImmutablePartsWith: store}
	m, err := NewRoot(&CreateRemoteOptions{BranchFactor: 2}).LoadMast(ctx, cfg)
	if err != nil {
		t.Fatal(err)
	}
	for _, k := range []int{3, 4, 6, 25} {
		if err := m.Insert(ctx, k, "a"); err != nil {
			t.Fatal(err)
		}
	}
	oldRoot, err := m.MakeRoot(ctx) // height 1: root [4 6] -> leaves [3], nil, [25]
	if err != nil {
		t.Fatal(err)
	}
	if err := m.Insert(ctx, 16, "b"); err != nil { // grows to height 2: root [4 16]
		t.Fatal(err)
	}
	newRoot, err := m.MakeRoot(ctx)
	if err != nil {
		t.Fatal(err)
	}
	oldM, err := oldRoot.LoadMast(ctx, cfg)
	if err != nil {
		t.Fatal(err)
	}
	newM, err := newRoot.LoadMast(ctx, cfg)
	if err != nil {
		t.Fatal(err)
	}
	// names reachable from the new version
	reach := map[string]bool{}
	var walk func(l interface{})
	walk = func(l interface{}) {
		if l == nil {
			return
		}
		reach[l.(string)] = true
		n, err := newM.load(ctx, l)
		if err != nil {
			t.Fatal(err)
		}
		for _, c := range n.Link {
			walk(c)
		}
	}
	walk(*newRoot.Link)
	added := map[string]bool{}
	var removed []string
	err = newM.DiffLinks(ctx, oldM, func(rem bool, link interface{}) (bool, error) {
		if rem {
			removed = append(removed, link.(string))
		} else {
			added[link.(string)] = true
		}
		return true, nil
	})
	if err != nil {
		t.Fatal(err)
	}
	for _, name := range removed {
		if reach[name] {
			n, _ := newM.load(ctx, name)
			t.Errorf("DiffLinks reports %s (keys %v) as removed, but the new version reaches it (also reported as added: %v)", name, n.Key, added[name])
		}
	}
}
