package mast

import (
	"testing"
)

func TestProbe3SplitDirty(t *testing.T) {
	store := NewInMemoryStore()
	cache := NewNodeCache(1000)
	m := probeTree(t, 4, cache, store)
	for _, k := range []int{48, 20, 24, 28, 36, 17, 18, 19, 21, 22, 23, 25, 26, 27, 29, 30, 31, 33, 34, 35, 37, 38} {
		m.Insert(ctx, k, k)
	}
	t.Logf("height=%d size=%d", m.Height(), m.Size())
	r, err := m.MakeRoot(ctx)
	if err != nil {
		t.Fatal(err)
	}
	cfg := &RemoteConfig{KeysLike: 0, ValuesLike: 0, StoreImmutablePartsWith: store, NodeCache: cache}
	a, _ := r.LoadMast(ctx, cfg)
	b, _ := r.LoadMast(ctx, cfg)
	c, _ := r.LoadMast(ctx, cfg)
	before := contents(c)
	a.Insert(ctx, 32, 32)
	mid := contents(c)
	b.Insert(ctx, 39, 39)
	after := contents(c)
	t.Logf("c before: %s", before)
	t.Logf("c mid   : %s", mid)
	t.Logf("c after : %s", after)
	d, _ := r.LoadMast(ctx, cfg)
	t.Logf("d reload: %s", contents(d))
}
