// Finding H2-F2 (property C07): a Load that fails once inside DiffLinks is swallowed by
// alreadyNotified; DiffLinks returns nil and reports the same node name twice.
//
// Copy to the root of the mast repository (package mast) and run:
//
//	GOFLAGS=-mod=mod go test -run TestH2FlakyLoadDuplicateLink -count=1 .
package mast

import (
	"context"
	"errors"
	"testing"
)

type h2f2Store struct {
	Persist
	loads  int
	failAt int
}

func (s *h2f2Store) Load(ctx context.Context, name string) ([]byte, error) {
	i := s.loads
	s.loads++
	if i == s.failAt {
		return nil, errors.New("transient load failure")
	}
	return s.Persist.Load(ctx, name)
}

func TestH2FlakyLoadDuplicateLink(t *testing.T) {
	ctx := context.Background()
	store := &h2f2Store{Persist: NewInMemoryStore(), failAt: -1}
	cfg := &RemoteConfig{KeysLike: 0, ValuesLike: "", StoreImmutablePartsWith: store}
	m, err := NewRoot(&CreateRemoteOptions{BranchFactor: 4}).LoadMast(ctx, cfg)
	if err != nil {
		t.Fatal(err)
	}
	for k := 5; k <= 10; k++ {
		if err := m.Insert(ctx, k, "a"); err != nil {
			t.Fatal(err)
		}
	}
	oldRoot, err := m.MakeRoot(ctx)
	if err != nil {
		t.Fatal(err)
	}
	if err := m.Insert(ctx, 4, "a"); err != nil {
		t.Fatal(err)
	}
	newRoot, err := m.MakeRoot(ctx)
	if err != nil {
		t.Fatal(err)
	}
	oldM, err := oldRoot.LoadMast(ctx, cfg)
	if err != nil {
		t.Fatal(err)
	}
	newM, err := newRoot.LoadMast(ctx, cfg)
	if err != nil {
		t.Fatal(err)
	}
	t.Logf("old root %s height %d, new root %s height %d", *oldRoot.Link, oldRoot.Height, *newRoot.Link, newRoot.Height)

	run := func(failAt int) (map[string]int, int, error) {
		seen := map[string]int{}
		store.loads, store.failAt = 0, failAt
		err := newM.DiffLinks(ctx, oldM, func(removed bool, link interface{}) (bool, error) {
			pfx := "added "
			if removed {
				pfx = "removed "
			}
			seen[pfx+link.(string)]++
			return true, nil
		})
		store.failAt = -1
		return seen, store.loads, err
	}
	_, total, err := run(-1)
	if err != nil {
		t.Fatal(err)
	}
	for failAt := 0; failAt < total; failAt++ {
		seen, _, err := run(failAt)
		if err != nil {
			continue // the failure was reported: fine
		}
		for name, n := range seen {
			if n > 1 {
				t.Errorf("Load call #%d of %d failed once, DiffLinks returned nil, and reported %q %d times", failAt, total, name, n)
			}
		}
	}
}
