// H7 finding 4 (C18, last clause): with the library's own S3 client set-up
// (persist/s3test.Client, i.e. an aws-sdk-go client with default configuration) the
// S3 store does not read and write the object prefix+name when the prefix contains
// "//", "/./", "/../" or starts with "/": the SDK path-cleans the key. A prefix
// "a/../b/" escapes "a/" and lands in "b/".
//
// Copy to persist/s3/ (package s3_test) and run:
//   go test -run 'TestH7S3OddPrefixes' ./persist/s3/
// Fails on the unmodified tree (fae5611).
package s3_test

import (
	"context"
	"sort"
	"testing"

	"github.com/aws/aws-sdk-go/service/s3"
	s3Persist "github.com/jrhy/mast/persist/s3"
	"github.com/jrhy/mast/persist/s3test"
)

func TestH7S3OddPrefixes(t *testing.T) {
	ctx := context.Background()
	name := "KbC2g-8_o4-dvjP51M0i1Qs4n32xCXlYVJF8WJQnJ6Q"
	for _, prefix := range []string{"a//", "/a/", "a/./", "a/../b/", "//", "a/b/../"} {
		c, bucket, closer := s3test.Client()
		pv := s3Persist.NewPersist(c, c.Endpoint, bucket, prefix)
		b := []byte("bytes for " + prefix)
		if err := pv.Store(ctx, name, b); err != nil {
			t.Errorf("prefix %q: store: %v", prefix, err)
			closer()
			continue
		}
		got, err := (&pv).Load(ctx, name)
		if err != nil || string(got) != string(b) {
			t.Errorf("prefix %q: load: %v", prefix, err)
		}
		var keys []string
		err = c.ListObjectsPages(&s3.ListObjectsInput{Bucket: &bucket}, func(o *s3.ListObjectsOutput, last bool) bool {
			for _, obj := range o.Contents {
				keys = append(keys, *obj.Key)
			}
			return true
		})
		if err != nil {
			t.Fatal(err)
		}
		sort.Strings(keys)
		if len(keys) != 1 || keys[0] != prefix+name {
			t.Errorf("prefix %q: bucket holds %q, want exactly %q", prefix, keys, prefix+name)
		}
		closer()
	}
}
