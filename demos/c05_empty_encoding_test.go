// Finding H5-2 (C05, and the "undecodable" clause of C19): in the v1.1.5binary format a key or
// value whose encoding is zero bytes long is decoded as nil, not by the configured Unmarshal.
// A value "" written with a raw-bytes marshaler comes back as nil; a key "" comes back as a nil
// key, which makes the root unloadable (or, when it is the only key, loads a tree keyed by nil).
//
// Copy to the repository root (package mast_test, public API only) and run:
//   go test -count=1 -run 'TestH5EmptyEncoding' .
// FAILS on the unmodified tree.
package mast_test

import (
	"context"
	"encoding/json"
	"reflect"
	"testing"

	"github.com/jrhy/mast"
)

func h5RawMarshal(i interface{}) ([]byte, error) {
	if s, ok := i.(string); ok {
		return []byte(s), nil // round-trips for every string, including ""
	}
	return json.Marshal(i)
}

func h5RawUnmarshal(b []byte, i interface{}) error {
	if p, ok := i.(*string); ok {
		*p = string(b)
		return nil
	}
	return json.Unmarshal(b, i)
}

func h5EmptyEncodingCase(t *testing.T, entries [][2]string) {
	ctx := context.Background()
	cfg := &mast.RemoteConfig{KeysLike: "", ValuesLike: "", StoreImmutablePartsWith: mast.NewInMemoryStore(),
		Marshal: h5RawMarshal, Unmarshal: h5RawUnmarshal}
	m, err := mast.NewRoot(&mast.CreateRemoteOptions{BranchFactor: 4, NodeFormat: mast.V115Binary}).LoadMast(ctx, cfg)
	if err != nil {
		t.Fatal(err)
	}
	for _, e := range entries {
		if err := m.Insert(ctx, e[0], e[1]); err != nil {
			t.Fatal(err)
		}
	}
	root, err := m.MakeRoot(ctx)
	if err != nil {
		t.Fatal(err)
	}
	m2, err := root.LoadMast(ctx, cfg)
	if err != nil {
		t.Fatalf("reload of the root just persisted: %v", err)
	}
	var got [][2]interface{}
	err = m2.Iter(ctx, func(k, v interface{}) error { got = append(got, [2]interface{}{k, v}); return nil })
	if err != nil {
		t.Fatal(err)
	}
	var want [][2]interface{}
	for _, e := range entries {
		want = append(want, [2]interface{}{e[0], e[1]})
	}
	if !reflect.DeepEqual(got, want) {
		t.Fatalf("reloaded entries %#v, persisted %#v", got, want)
	}
}

func TestH5EmptyEncodingValue(t *testing.T) {
	h5EmptyEncodingCase(t, [][2]string{{"a", ""}, {"b", "x"}})
}

func TestH5EmptyEncodingKey(t *testing.T) {
	h5EmptyEncodingCase(t, [][2]string{{"", "x"}, {"b", "y"}})
}

func TestH5EmptyEncodingOnlyKey(t *testing.T) {
	h5EmptyEncodingCase(t, [][2]string{{"", "x"}})
}
