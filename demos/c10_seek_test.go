// Demonstration for the SeekIter defect (C10), fixed in /repo by 70ae10e: copy to the repository root (package mast).
// go test -count=1 -run TestSeekAbsent .   — fails at be407ea and at the pinned commit 5b9555e, passes from 70ae10e on.
package mast

import (
	"context"
	"testing"
)

func TestSeekAbsent(t *testing.T) {
	ctx := context.Background()
	for _, bf := range []uint{3, 4, 16} {
		m := NewInMemory()
		m.branchFactor = bf
		m.growAfterSize = uint64(bf)
		var keys []int
		for i := 1; i <= 300; i++ {
			if i%5 == 0 {
				continue
			}
			if err := m.Insert(ctx, i, i); err != nil {
				t.Fatal(err)
			}
			keys = append(keys, i)
		}
		for probe := 0; probe <= 305; probe++ {
			var want []int
			for _, k := range keys {
				if k >= probe {
					want = append(want, k)
				}
			}
			var got []int
			err := m.SeekIter(ctx, probe, func(k, v interface{}) error { got = append(got, k.(int)); return nil })
			if err != nil {
				t.Fatal(err)
			}
			if len(got) != len(want) {
				t.Errorf("bf=%d height=%d probe=%d: got %d entries (first %v), want %d (first %v)", bf, m.height, probe, len(got), first(got), len(want), first(want))
				continue
			}
			for i := range got {
				if got[i] != want[i] {
					t.Errorf("bf=%d probe=%d: mismatch at %d: %d vs %d", bf, probe, i, got[i], want[i])
					break
				}
			}
		}
	}
}
func first(a []int) interface{} {
	if len(a) == 0 {
		return nil
	}
	return a[0]
}
