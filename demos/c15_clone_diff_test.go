// C15 — diffing a persisted version against its own Clone (the same version) reads a
// node and reports the root as removed and added.
//
// Copy to the root of the mast repository (package mast) and run:
//
//	GOFLAGS=-mod=mod go test -run TestH6DiffOfCloneReadsRoot -count=1 -v .
//
// FAILS on the unmodified tree.
package mast

import (
	"context"
	"fmt"
	"sync"
	"testing"
)

type h6f2Store struct {
	mu    sync.Mutex
	data  map[string][]byte
	loads int
}

func (s *h6f2Store) Store(_ context.Context, name string, b []byte) error {
	s.mu.Lock()
	defer s.mu.Unlock()
	s.data[name] = append([]byte{}, b...)
	return nil
}
func (s *h6f2Store) Load(_ context.Context, name string) ([]byte, error) {
	s.mu.Lock()
	defer s.mu.Unlock()
	b, ok := s.data[name]
	if !ok {
		return nil, fmt.Errorf("%s not found", name)
	}
	s.loads++
	return b, nil
}
func (s *h6f2Store) NodeURLPrefix() string { return "h6f2" }

func TestH6DiffOfCloneReadsRoot(t *testing.T) {
	ctx := context.Background()
	s := &h6f2Store{data: map[string][]byte{}}
	cfg := &RemoteConfig{KeysLike: 0, ValuesLike: "", StoreImmutablePartsWith: s}
	m, err := NewRoot(&CreateRemoteOptions{BranchFactor: 4}).LoadMast(ctx, cfg)
	if err != nil {
		t.Fatal(err)
	}
	for k := 1; k <= 100; k++ {
		if err := m.Insert(ctx, k, "v"); err != nil {
			t.Fatal(err)
		}
	}
	root, err := m.MakeRoot(ctx)
	if err != nil {
		t.Fatal(err)
	}
	a, err := root.LoadMast(ctx, cfg)
	if err != nil {
		t.Fatal(err)
	}
	c, err := a.Clone(ctx) // same version, not dirty
	if err != nil {
		t.Fatal(err)
	}
	if c.IsDirty() {
		t.Fatal("clone is dirty")
	}
	s.loads = 0
	var links []string
	err = c.DiffLinks(ctx, a, func(removed bool, link interface{}) (bool, error) {
		links = append(links, fmt.Sprintf("removed=%v %T", removed, link))
		return true, nil
	})
	if err != nil {
		t.Fatal(err)
	}
	if s.loads != 0 {
		t.Errorf("diff of a version with its clone read %d nodes, want 0", s.loads)
	}
	if len(links) != 0 {
		t.Errorf("diff of a version with its clone reported links: %v", links)
	}
}
