package mast

import (
	"context"
	"math/rand"
	"sort"
	"testing"
)

func TestC04RandomHistories(t *testing.T) {
	ctx := context.Background()
	mism, total := 0, 0
	for seed := int64(0); seed < 400; seed++ {
		r := rand.New(rand.NewSource(seed))
		bf := uint(2 + r.Intn(5))
		store := NewInMemoryStore()
		cfg := &RemoteConfig{KeysLike: 0, ValuesLike: "", StoreImmutablePartsWith: store}
		if seed%2 == 0 {
			cfg.NodeCache = NewNodeCache(64)
		}
		a, err := NewRoot(&CreateRemoteOptions{BranchFactor: bf}).LoadMast(ctx, cfg)
		if err != nil {
			t.Fatal(err)
		}
		set := map[int]bool{}
		span := 20 + r.Intn(400)
		for i := 0; i < 300+r.Intn(500); i++ {
			k := r.Intn(span)
			switch {
			case set[k] && r.Intn(5) < 3:
				if err := a.Delete(ctx, k, ""); err != nil {
					t.Fatalf("seed %d: %v", seed, err)
				}
				delete(set, k)
			case r.Intn(40) == 0:
				root, err := a.MakeRoot(ctx)
				if err != nil {
					t.Fatal(err)
				}
				a, err = root.LoadMast(ctx, cfg)
				if err != nil {
					t.Fatal(err)
				}
			default:
				if err := a.Insert(ctx, k, ""); err != nil {
					t.Fatal(err)
				}
				set[k] = true
			}
		}
		var ks []int
		for k := range set {
			ks = append(ks, k)
		}
		sort.Ints(ks)
		r.Shuffle(len(ks), func(i, j int) { ks[i], ks[j] = ks[j], ks[i] })
		b, _ := NewRoot(&CreateRemoteOptions{BranchFactor: bf}).LoadMast(ctx, &RemoteConfig{KeysLike: 0, ValuesLike: "", StoreImmutablePartsWith: NewInMemoryStore()})
		for _, k := range ks {
			if err := b.Insert(ctx, k, ""); err != nil {
				t.Fatal(err)
			}
		}
		if a.Size() != uint64(len(ks)) {
			t.Fatalf("size")
		}
		n := 0
		a.Iter(ctx, func(k, v interface{}) error { n++; return nil })
		if n != len(ks) {
			t.Fatalf("seed %d iter %d != %d", seed, n, len(ks))
		}
		ra, _ := a.MakeRoot(ctx)
		rb, _ := b.MakeRoot(ctx)
		total++
		la, lb := "", ""
		if ra.Link != nil {
			la = *ra.Link
		}
		if rb.Link != nil {
			lb = *rb.Link
		}
		if la != lb || ra.Height != rb.Height || ra.Size != rb.Size {
			mism++
			if mism < 6 {
				t.Logf("seed %d bf=%d n=%d: history h=%d vs fresh h=%d", seed, bf, len(ks), ra.Height, rb.Height)
			}
		}
	}
	t.Logf("mismatches %d / %d", mism, total)
	if mism > 0 {
		t.Fail()
	}
}
