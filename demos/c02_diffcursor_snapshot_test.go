// H4-2 (C02, conditional): a DiffCursor (Mast.StartDiff) does not capture the versions
// it was opened on; edits applied to the tree afterwards show through in NextEntry.
// (Mast.Cursor does clone; StartDiff keeps the caller's *Mast and raw links to its
// in-memory nodes, which Insert/Delete then modify in place.)
//
// Copy to the repository root (package mast) and run:
//   export GOFLAGS=-mod=mod GOPROXY=off GOSUMDB=off GOTOOLCHAIN=local; unset GOWORK
//   go test -count=1 -run 'TestH4DiffCursorSnapshot' .
// FAILS on the unmodified tree.
package mast

import (
	"context"
	"testing"
)

func TestH4DiffCursorSnapshot(t *testing.T) {
	ctx := context.Background()
	store := NewInMemoryStore()
	cfg := &RemoteConfig{KeysLike: 0, ValuesLike: "", StoreImmutablePartsWith: store}
	m, err := NewRoot(&CreateRemoteOptions{BranchFactor: 4}).LoadMast(ctx, cfg)
	if err != nil {
		t.Fatal(err)
	}
	old, err := m.Clone(ctx) // empty version
	if err != nil {
		t.Fatal(err)
	}
	for i := 1; i <= 10; i++ {
		if err := m.Insert(ctx, i, "v"); err != nil {
			t.Fatal(err)
		}
	}
	dc, err := m.StartDiff(ctx, &old)
	if err != nil {
		t.Fatal(err)
	}
	var got []int
	d, err := dc.NextEntry(ctx)
	if err != nil {
		t.Fatal(err)
	}
	got = append(got, d.Key.(int))
	// the tree the diff cursor was opened on is modified afterwards
	if err := m.Delete(ctx, 7, "v"); err != nil {
		t.Fatal(err)
	}
	if err := m.Insert(ctx, 3, "changed"); err != nil {
		t.Fatal(err)
	}
	for {
		d, err := dc.NextEntry(ctx)
		if err == ErrNoMoreDiffs {
			break
		}
		if err != nil {
			t.Fatal(err)
		}
		if d.NewValue != "v" {
			t.Errorf("key %v: value %v, version at StartDiff had \"v\"", d.Key, d.NewValue)
		}
		got = append(got, d.Key.(int))
	}
	if len(got) != 10 {
		t.Errorf("diff cursor yielded %v; the version it was opened on had keys 1..10", got)
	}
}
