// Demonstration for F29 (C19): copy to the repository root (package mast_test uses the public API only).
//   go test -count=1 -run TestC19ConfigNoPanic .
// Panics (reflect: New(nil); nil pointer dereference) before the repair, passes after it.
package mast_test

import (
	"context"
	"testing"

	"github.com/jrhy/mast"
)

func TestC19ConfigNoPanic(t *testing.T) {
	ctx := context.Background()
	store := mast.NewInMemoryStore()
	good := &mast.RemoteConfig{KeysLike: 0, ValuesLike: "", StoreImmutablePartsWith: store}
	root := mast.NewRoot(&mast.CreateRemoteOptions{BranchFactor: 4})
	root.NodeFormat = "v1marshaler"
	m, err := root.LoadMast(ctx, good)
	if err != nil {
		t.Fatal(err)
	}
	if err := m.Insert(ctx, 1, "v"); err != nil {
		t.Fatal(err)
	}
	r, err := m.MakeRoot(ctx)
	if err != nil {
		t.Fatal(err)
	}
	for name, cfg := range map[string]*mast.RemoteConfig{
		"KeysLike missing": {ValuesLike: "", StoreImmutablePartsWith: store},
		"store missing":    {KeysLike: 0, ValuesLike: ""},
	} {
		func() {
			defer func() {
				if p := recover(); p != nil {
					t.Errorf("%s: LoadMast panicked: %v", name, p)
				}
			}()
			if _, err := r.LoadMast(ctx, cfg); err == nil {
				t.Errorf("%s: LoadMast accepted a root whose top node it cannot load", name)
			}
		}()
	}
}
