// Finding H2-F1 (property C07): a version loaded from an empty Root keeps an in-memory
// placeholder node as its root, and DiffLinks hands that placeholder (*mastNode, not a name)
// to the callback as an added/removed "link"; between two empty loaded versions it is
// reported as added twice.
//
// Copy to the root of the mast repository (package mast) and run:
//
//	GOFLAGS=-mod=mod go test -run TestH2EmptyRootDiffLinks -count=1 .
package mast

import (
	"context"
	"testing"
)

func TestH2EmptyRootDiffLinks(t *testing.T) {
	ctx := context.Background()
	store := NewInMemoryStore()
	cfg := &RemoteConfig{KeysLike: 0, ValuesLike: "", StoreImmutablePartsWith: store}
	load := func(r *Root) *Mast {
		m, err := r.LoadMast(ctx, cfg)
		if err != nil {
			t.Fatal(err)
		}
		return m
	}
	// version 0: empty, persisted
	m := load(NewRoot(&CreateRemoteOptions{BranchFactor: 4}))
	root0, err := m.MakeRoot(ctx)
	if err != nil {
		t.Fatal(err)
	}
	// version 1: one entry, persisted
	if err := m.Insert(ctx, 1, "a"); err != nil {
		t.Fatal(err)
	}
	root1, err := m.MakeRoot(ctx)
	if err != nil {
		t.Fatal(err)
	}

	check := func(what string, newM, oldM *Mast, wantAdded, wantRemoved []string) {
		var added, removed []string
		err := newM.DiffLinks(ctx, oldM, func(isRemoved bool, link interface{}) (bool, error) {
			name, ok := link.(string)
			if !ok {
				t.Errorf("%s: DiffLinks reported removed=%v link of type %T (%v), not a node name", what, isRemoved, link, link)
				return true, nil
			}
			if isRemoved {
				removed = append(removed, name)
			} else {
				added = append(added, name)
			}
			return true, nil
		})
		if err != nil {
			t.Fatal(err)
		}
		if len(added) != len(wantAdded) || len(removed) != len(wantRemoved) {
			t.Errorf("%s: added=%v removed=%v, want added=%v removed=%v", what, added, removed, wantAdded, wantRemoved)
		}
	}
	check("empty -> one entry", load(root1), load(root0), []string{*root1.Link}, nil)
	check("one entry -> empty", load(root0), load(root1), nil, []string{*root1.Link})
	check("empty -> empty", load(root0), load(root0), nil, nil)
}
