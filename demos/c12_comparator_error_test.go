// C12 — a failing key comparison during Insert/Delete makes the library PANIC
// (validateNode, called by ToMut and shrink, panics on a comparator error)
// instead of returning the error and leaving the tree unchanged.
//
// Copy to the root of the mast repository (package mast) and run:
//
//	GOFLAGS=-mod=mod go test -run TestH6ComparatorErrorPanics -count=1 -v .
//
// FAILS on the unmodified tree.
package mast

import (
	"context"
	"encoding/json"
	"errors"
	"fmt"
	"testing"
)

func TestH6ComparatorErrorPanics(t *testing.T) {
	ctx := context.Background()
	store := NewInMemoryStore()
	calls, failAt := 0, 0
	base := DefaultKeyCompare(json.Marshal)
	cfg := &RemoteConfig{KeysLike: 0, ValuesLike: "", StoreImmutablePartsWith: store,
		KeyCompare: func(a, b interface{}) (int, error) {
			calls++
			if calls == failAt {
				return -1, errors.New("transient comparator failure") // -1 as DefaultKeyCompare does
			}
			return base(a, b)
		}}
	m, err := NewRoot(&CreateRemoteOptions{BranchFactor: 4}).LoadMast(ctx, cfg)
	if err != nil {
		t.Fatal(err)
	}
	for k := 1; k <= 3; k++ {
		if err := m.Insert(ctx, k*10, "v"); err != nil {
			t.Fatal(err)
		}
	}
	root, err := m.MakeRoot(ctx)
	if err != nil {
		t.Fatal(err)
	}
	for _, op := range []string{"Insert(25)", "Delete(20)"} {
		edit := func(x *Mast) error {
			if op == "Insert(25)" {
				return x.Insert(ctx, 25, "v")
			}
			return x.Delete(ctx, 20, "v")
		}
		failAt = 0
		lm, err := root.LoadMast(ctx, cfg)
		if err != nil {
			t.Fatal(err)
		}
		calls = 0
		if err := edit(lm); err != nil {
			t.Fatal(err)
		}
		total := calls
		for f := 1; f <= total; f++ {
			failAt = 0
			lm, err := root.LoadMast(ctx, cfg)
			if err != nil {
				t.Fatal(err)
			}
			calls, failAt = 0, f
			func() {
				defer func() {
					if r := recover(); r != nil {
						t.Errorf("%s with comparison #%d of %d failing: panic: %v", op, f, total, r)
					}
				}()
				err := edit(lm)
				failAt = 0
				if err == nil {
					return // (the error dropped inside the binary search is a known defect)
				}
				// the call returned an error: the tree must be unchanged
				var keys []interface{}
				if ierr := lm.Iter(ctx, func(k, _ interface{}) error { keys = append(keys, k); return nil }); ierr != nil {
					t.Errorf("%s #%d: iter after error: %v", op, f, ierr)
				}
				if fmt.Sprint(keys) != "[10 20 30]" || lm.Size() != 3 {
					t.Logf("%s #%d: returned %v and left keys=%v size=%d (non-atomic edit: known)", op, f, err, keys, lm.Size())
				}
			}()
		}
	}
}
