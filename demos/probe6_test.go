package mast

import "testing"

// F7 (C04/C09): a never-populated tree persists an entry-less root node and gets a Link,
// an emptied tree gets none: two roots for the same (empty) contents.
func TestProbe6EmptyRoot(t *testing.T) {
	rs := rawStore{map[string][]byte{}} // rawStore is defined in probe4_test.go
	root := NewRoot(&CreateRemoteOptions{BranchFactor: 4})
	m, _ := root.LoadMast(ctx, &RemoteConfig{KeysLike: 0, ValuesLike: 0, StoreImmutablePartsWith: rs})
	r1, err := m.MakeRoot(ctx)
	t.Logf("never-populated: link=%v err=%v stored=%d", r1.Link != nil, err, len(rs.m))
	m.Insert(ctx, 1, 1)
	m.Delete(ctx, 1, 1)
	r2, err := m.MakeRoot(ctx)
	t.Logf("emptied: link=%v err=%v stored=%d dirty=%v", r2.Link != nil, err, len(rs.m), m.IsDirty())
}
