// Finding H1-3 (property C01, minor): Get does not report the last value written
// when that value is nil: it returns found=true but leaves the caller's variable
// untouched, so a reused variable still shows an older (or another key's) value.
//
// Copy to the repository root (package mast) and run:
//   export GOFLAGS=-mod=mod GOPROXY=off GOSUMDB=off GOTOOLCHAIN=local; unset GOWORK
//   go test -count=1 -run 'TestH1GetNilValue' .
// FAILS on the unmodified tree.
package mast

import (
	"context"
	"testing"
)

func TestH1GetNilValue(t *testing.T) {
	ctx := context.Background()
	m := NewInMemory()
	if err := m.Insert(ctx, 1, "old"); err != nil {
		t.Fatal(err)
	}
	if err := m.Insert(ctx, 2, nil); err != nil {
		t.Fatal(err)
	}
	var v interface{}
	found, err := m.Get(ctx, 1, &v)
	if err != nil || !found || v != "old" {
		t.Fatalf("Get(1): found=%v v=%v err=%v", found, v, err)
	}
	found, err = m.Get(ctx, 2, &v)
	if err != nil || !found {
		t.Fatalf("Get(2): found=%v err=%v", found, err)
	}
	if v != nil {
		t.Errorf("Get(2) returned found=true but *value is %#v; the value written for key 2 is nil", v)
	}
	// the iteration does report nil
	_ = m.Iter(ctx, func(k, val interface{}) error {
		if k.(int) == 2 && val != nil {
			t.Errorf("Iter reports %v for key 2", val)
		}
		return nil
	})
}
